#!/usr/bin/env python3
"""Validate the monitors against source changes that break a property (selftest/mutants.py,
selftest/mutants_neg, /verif/seeded/*/patch.diff) on a scratch copy of the crate.

  selftest/run_mutants.py [--only NAME[,NAME..]] [--seeded] [--mutants] [--tier quick] [--layers chk,rel] [--keep]

For each change: reset the scratch worktree, apply the change, require that it compiles and that the
crate's own 73 tests still pass (otherwise it is "discarded"), run the quick check of the
property (or properties) it targets and record whether a VIOLATION was raised. Changes marked
expect=silent are equivalent-behaviour refactors: every listed check must stay silent.
Nothing here is part of a registered command; the scratch tree lives under /tmp/mqv-mut and is
removed at the end unless --keep is given.
"""
import argparse
import json
import os
import re
import shutil
import subprocess
import sys
import time

HERE = os.path.dirname(os.path.abspath(__file__))
ROOT = os.path.dirname(HERE)
SCR = os.environ.get("MQV_SCRATCH", "/tmp/mqv-mut")
SREPO = os.path.join(SCR, "repo")
SVERIF = os.path.join(SCR, "verif")

sys.path.insert(0, HERE)


def sh(cmd, cwd=None, env=None, timeout=None):
    # own process group, so that a hanging grandchild (e.g. the crate's test binary spinning under a
    # mutant) is killed together with its parent when the watchdog fires
    import signal
    p = subprocess.Popen(cmd, cwd=cwd, env=env, stdout=subprocess.PIPE, stderr=subprocess.STDOUT, text=True, errors="replace", start_new_session=True)
    try:
        out, _ = p.communicate(timeout=timeout)
        return p.returncode, out
    except subprocess.TimeoutExpired:
        try:
            os.killpg(p.pid, signal.SIGKILL)
        except ProcessLookupError:
            pass
        out, _ = p.communicate()
        return None, (out or "") + "\n[timeout]"


def setup():
    os.makedirs(SCR, exist_ok=True)
    if not os.path.isdir(SREPO):
        rc, out = sh(["git", "-C", "/repo", "worktree", "add", "--detach", SREPO, "HEAD"])
        if rc != 0:
            raise SystemExit("cannot create scratch worktree: " + out)
    else:
        sh(["git", "checkout", "--", "."], cwd=SREPO)
        sh(["git", "clean", "-fdq", "--", "src", "tests"], cwd=SREPO)
        sh(["git", "checkout", "--detach", subprocess.check_output(["git", "-C", "/repo", "rev-parse", "HEAD"], text=True).strip()], cwd=SREPO)
    os.makedirs(os.path.join(SVERIF, "harness"), exist_ok=True)
    sh(["rsync", "-a", "--delete", "--exclude", "target", os.path.join(ROOT, "harness") + "/", os.path.join(SVERIF, "harness") + "/"])
    shutil.copyfile(os.path.join(ROOT, "KNOWN_FINDINGS.txt"), os.path.join(SVERIF, "KNOWN_FINDINGS.txt"))
    shutil.copyfile(os.path.join(ROOT, "check"), os.path.join(SVERIF, "check"))
    os.chmod(os.path.join(SVERIF, "check"), 0o755)


def reset():
    sh(["git", "checkout", "--", "."], cwd=SREPO)
    sh(["git", "clean", "-fdq", "--", "src", "tests"], cwd=SREPO)


def apply_edits(edits):
    for (path, old, new) in edits:
        fp = os.path.join(SREPO, path)
        s = open(fp).read()
        if s.count(old) < 1:
            return "edit does not apply: %s :: %r" % (path, old[:60])
        s = s.replace(old, new, 1)
        open(fp, "w").write(s)
    return None


def apply_patch(patch):
    rc, out = sh(["git", "apply", patch], cwd=SREPO)
    return None if rc == 0 else "patch does not apply: " + out[:200]


def repo_tests():
    env = dict(os.environ, CARGO_NET_OFFLINE="true", CARGO_TARGET_DIR=os.path.join(SCR, "repo-target"))
    rc, out = sh(["cargo", "test", "--offline", "--lib"], cwd=SREPO, env=env, timeout=420)
    if rc is None:
        return False, "the crate's own tests hang"
    m = re.search(r"test result: (\w+)\. (\d+) passed; (\d+) failed", out)
    if not m:
        return False, "does not compile" if "error" in out else "no test result"
    return (m.group(1) == "ok" and m.group(2) == "73"), "%s passed, %s failed" % (m.group(2), m.group(3))


def run_check(prop, tier, layers):
    env = dict(os.environ)
    env.update({
        "MQV_HARNESS": os.path.join(SVERIF, "harness"),
        "MQV_REPO": SREPO,
        "MQV_TARGET": os.path.join(SCR, "target"),
        "MQV_EVID": os.path.join(SCR, "evidence"),
        "MQV_REPLAYS": os.path.join(SCR, "replays"),
    })
    if layers:
        env["MQV_LAYERS"] = layers
    t0 = time.time()
    rc, out = sh([os.path.join(SVERIF, "check"), prop, tier], cwd=SVERIF, env=env, timeout=3600)
    if rc is None:
        rc = "timeout"
    sigs = re.findall(r"signature: (\S+)", out)
    return rc, sigs, time.time() - t0, out


def main():
    ap = argparse.ArgumentParser()
    ap.add_argument("--only", default="")
    ap.add_argument("--start", default="", help="skip everything before this name")
    ap.add_argument("--seeded", action="store_true")
    ap.add_argument("--mutants", action="store_true")
    ap.add_argument("--benign", action="store_true", help="property-preserving changes under /verif/benign: every check must stay silent")
    ap.add_argument("--props", default="", help="run only these checks (comma-separated) instead of the ones listed for each change")
    ap.add_argument("--tier", default="quick")
    ap.add_argument("--layers", default="chk,rel")
    ap.add_argument("--keep", action="store_true")
    ap.add_argument("--out", default=os.path.join(HERE, "RESULTS.json"))
    a = ap.parse_args()
    only = set(x for x in a.only.split(",") if x)
    items = []
    if a.benign:
        bd = os.path.join(ROOT, "benign")
        for d in sorted(os.listdir(bd)) if os.path.isdir(bd) else []:
            meta = os.path.join(bd, d, "meta.json")
            if os.path.exists(meta):
                mj = json.load(open(meta))
                items.append({"name": "benign-" + d, "props": mj.get("check_with") or ["C%02d" % i for i in range(1, 21)], "expect": "silent", "patch": os.path.join(bd, d, "patch.diff"), "layers": mj.get("layers"), "why": mj.get("what", "")})
    if (a.mutants or not a.seeded) and not a.benign:
        import mutants
        for m in mutants.MUTANTS:
            items.append({"name": m["name"], "props": m["props"], "expect": m.get("expect", "detect"), "edits": m["edits"], "layers": m.get("layers"), "why": m.get("why", "")})
    if (a.seeded or not a.mutants) and not a.benign:
        sd = os.path.join(ROOT, "seeded")
        for d in sorted(os.listdir(sd)) if os.path.isdir(sd) else []:
            meta = os.path.join(sd, d, "meta.json")
            if os.path.exists(meta):
                mj = json.load(open(meta))
                items.append({"name": "seeded-" + d, "props": mj.get("check_with", [mj["property"]]), "expect": mj.get("expect", "detect"), "patch": os.path.join(sd, d, "patch.diff"), "layers": mj.get("layers"), "why": mj.get("needs", "")})
    if only:
        items = [i for i in items if i["name"] in only]
    if a.props:
        for i in items:
            i["props"] = [x for x in a.props.split(",") if x]
    if a.start:
        names = [i["name"] for i in items]
        if a.start in names:
            items = items[names.index(a.start):]
    setup()
    results = []
    try:
        # the unchanged tree must be silent first (otherwise nothing below means anything)
        for it in items:
            reset()
            err = apply_patch(it["patch"]) if "patch" in it else apply_edits(it["edits"])
            row = {"name": it["name"], "props": it["props"], "expect": it["expect"], "why": it["why"]}
            if err:
                row["status"] = "ERROR"
                row["detail"] = err
                results.append(row)
                print("%-44s ERROR %s" % (it["name"], err), flush=True)
                continue
            ok, detail = repo_tests()
            if not ok:
                row["status"] = "discarded"
                row["detail"] = "crate tests: " + detail
                results.append(row)
                print("%-44s discarded (%s)" % (it["name"], detail), flush=True)
                continue
            caught_by, silent_in, sigs_all = [], [], []
            for p in it["props"]:
                rc, sigs, dt, out = run_check(p, a.tier, it.get("layers") or a.layers)
                if rc == 1:
                    caught_by.append(p)
                    sigs_all += sigs[:3]
                elif rc == 0:
                    silent_in.append(p)
                else:
                    silent_in.append(p + "(exit %s)" % rc)
                    row.setdefault("notes", []).append(out[-300:])
            row["caught_by"] = caught_by
            row["silent_in"] = silent_in
            row["signatures"] = sigs_all[:6]
            if it["expect"] == "out_of_scope":
                # breaks something the twenty properties do not state (see meta.json scope_note): either outcome is fine
                row["status"] = "out-of-scope (%s)" % ("flagged" if caught_by else "silent")
            elif it["expect"] == "out_of_reach":
                # a genuine violation whose trigger no black-box workload produces (see meta.json reach_note)
                row["status"] = "DETECTED" if caught_by else "missed (out of reach)"
            elif it["expect"] == "detect":
                row["status"] = "DETECTED" if caught_by else "MISSED"
            else:
                row["status"] = "silent-as-expected" if not caught_by else "FALSE-ALARM"
            results.append(row)
            print("%-44s %-18s caught_by=%s silent_in=%s %s" % (it["name"], row["status"], caught_by, silent_in, sigs_all[:2]), flush=True)
    finally:
        reset()
        json.dump(results, open(a.out, "w"), indent=1)
        if not a.keep:
            sh(["git", "-C", "/repo", "worktree", "remove", "--force", SREPO])
            shutil.rmtree(SCR, ignore_errors=True)
    bad = [r for r in results if r["status"] in ("MISSED", "FALSE-ALARM", "ERROR")]
    print("%d changes: %d detected, %d missed, %d discarded, %d silent-as-expected, %d false alarms, %d errors" % (
        len(results),
        sum(r["status"] == "DETECTED" for r in results),
        sum(r["status"] == "MISSED" for r in results),
        sum(r["status"] == "discarded" for r in results),
        sum(r["status"] == "silent-as-expected" for r in results),
        sum(r["status"] == "FALSE-ALARM" for r in results),
        sum(r["status"] == "ERROR" for r in results),
    ))
    return 1 if bad else 0


if __name__ == "__main__":
    sys.exit(main())

//! Small deterministic PRNG (splitmix64 seeding + xoshiro256**). No external crates, Miri-friendly.

#[derive(Clone, Debug)]
pub struct Rng {
    s: [u64; 4],
}

pub fn splitmix(x: &mut u64) -> u64 {
    *x = x.wrapping_add(0x9E37_79B9_7F4A_7C15);
    let mut z = *x;
    z = (z ^ (z >> 30)).wrapping_mul(0xBF58_476D_1CE4_E5B9);
    z = (z ^ (z >> 27)).wrapping_mul(0x94D0_49BB_1331_11EB);
    z ^ (z >> 31)
}

pub fn fnv(s: &str) -> u64 {
    let mut h: u64 = 0xcbf2_9ce4_8422_2325;
    for b in s.bytes() {
        h ^= b as u64;
        h = h.wrapping_mul(0x100_0000_01b3);
    }
    h
}

pub fn fnv_bytes(h0: u64, s: &[u8]) -> u64 {
    let mut h: u64 = h0 ^ 0xcbf2_9ce4_8422_2325;
    for b in s {
        h ^= *b as u64;
        h = h.wrapping_mul(0x100_0000_01b3);
    }
    // final avalanche so short inputs spread over 64 bits
    let mut x = h;
    splitmix(&mut x)
}

impl Rng {
    pub fn new(seed: u64) -> Rng {
        let mut x = seed;
        let s = [splitmix(&mut x), splitmix(&mut x), splitmix(&mut x), splitmix(&mut x)];
        Rng { s }
    }
    /// Worker stream `w` of property `prop` under global seed `seed`.
    pub fn for_worker(seed: u64, prop: &str, w: u64) -> Rng {
        Rng::new(seed ^ fnv(prop).rotate_left(17) ^ w.wrapping_mul(0xA24B_AED4_963E_E407))
    }
    pub fn next(&mut self) -> u64 {
        let r = self.s[1].wrapping_mul(5).rotate_left(7).wrapping_mul(9);
        let t = self.s[1] << 17;
        self.s[2] ^= self.s[0];
        self.s[3] ^= self.s[1];
        self.s[1] ^= self.s[2];
        self.s[0] ^= self.s[3];
        self.s[2] ^= t;
        self.s[3] = self.s[3].rotate_left(45);
        r
    }
    /// uniform in 0..n (n > 0)
    pub fn below(&mut self, n: u64) -> u64 {
        debug_assert!(n > 0);
        ((self.next() as u128 * n as u128) >> 64) as u64
    }
    pub fn range(&mut self, lo: usize, hi_incl: usize) -> usize {
        lo + self.below((hi_incl - lo + 1) as u64) as usize
    }
    pub fn bool(&mut self) -> bool {
        self.next() & 1 == 1
    }
    /// true with probability num/den
    pub fn chance(&mut self, num: u64, den: u64) -> bool {
        self.below(den) < num
    }
    pub fn u8(&mut self) -> u8 {
        self.next() as u8
    }
    pub fn u16(&mut self) -> u16 {
        self.next() as u16
    }
    pub fn u32(&mut self) -> u32 {
        self.next() as u32
    }
    pub fn pick<'a, T>(&mut self, xs: &'a [T]) -> &'a T {
        &xs[self.below(xs.len() as u64) as usize]
    }
    pub fn bytes(&mut self, n: usize) -> Vec<u8> {
        let mut v = Vec::with_capacity(n);
        while v.len() + 8 <= n {
            v.extend_from_slice(&self.next().to_le_bytes());
        }
        while v.len() < n {
            v.push(self.u8());
        }
        v
    }
    pub fn shuffle<T>(&mut self, xs: &mut [T]) {
        for i in (1..xs.len()).rev() {
            let j = self.below(i as u64 + 1) as usize;
            xs.swap(i, j);
        }
    }
}

//! Reference model, part 2: an independent recursive-descent decoder for MQTT 3.1 / 3.1.1 / 5.0
//! control packets, written from the specifications. It classifies a complete frame as
//! Accept(spec-level fields, don't-care notes) or Reject(first violated rule in wire order).
//!
//! Ordering of checks only matters for frames with several violations; the handful of deferred
//! checks (PUBLISH topic-name validity after the payload is delimited, v3 Will QoS after the
//! will message) are documented in DESIGN.md §3 and are used by C20's cross-check only.

use crate::refm::*;

pub struct Cur<'a> {
    pub b: &'a [u8],
    pub pos: usize,
}

type R<T> = Result<T, RefErr>;

impl<'a> Cur<'a> {
    pub fn new(b: &'a [u8]) -> Cur<'a> {
        Cur { b, pos: 0 }
    }
    pub fn left(&self) -> usize {
        self.b.len() - self.pos
    }
    pub fn u8(&mut self) -> R<u8> {
        if self.left() < 1 {
            return Err(RefErr::RemLen);
        }
        let v = self.b[self.pos];
        self.pos += 1;
        Ok(v)
    }
    pub fn u16(&mut self) -> R<u16> {
        if self.left() < 2 {
            self.pos = self.b.len();
            return Err(RefErr::RemLen);
        }
        let v = ((self.b[self.pos] as u16) << 8) | self.b[self.pos + 1] as u16;
        self.pos += 2;
        Ok(v)
    }
    pub fn u32(&mut self) -> R<u32> {
        if self.left() < 4 {
            return Err(RefErr::RemLen);
        }
        let p = self.pos;
        let v = ((self.b[p] as u32) << 24) | ((self.b[p + 1] as u32) << 16) | ((self.b[p + 2] as u32) << 8) | self.b[p + 3] as u32;
        self.pos += 4;
        Ok(v)
    }
    pub fn take(&mut self, n: usize) -> R<&'a [u8]> {
        if self.left() < n {
            return Err(RefErr::RemLen);
        }
        let s = &self.b[self.pos..self.pos + n];
        self.pos += n;
        Ok(s)
    }
    /// 2-byte length prefixed binary data
    pub fn bin(&mut self) -> R<&'a [u8]> {
        let n = self.u16()? as usize;
        self.take(n)
    }
    /// 2-byte length prefixed UTF-8 string
    pub fn string(&mut self) -> R<&'a [u8]> {
        let s = self.bin()?;
        if !utf8_ok(s) {
            return Err(RefErr::BadString);
        }
        Ok(s)
    }
    pub fn varint(&mut self, notes: &mut Vec<Note>) -> R<u32> {
        match varint_dec(&self.b[self.pos..]) {
            VarDec::Ok(v, n, minimal) => {
                self.pos += n;
                if !minimal {
                    note(notes, Note::NonMinimal);
                }
                Ok(v)
            }
            VarDec::Incomplete => Err(RefErr::RemLen),
            VarDec::TooLong => Err(RefErr::VarInt),
        }
    }
}

fn note(notes: &mut Vec<Note>, n: Note) {
    if !notes.contains(&n) {
        notes.push(n);
    }
}

fn nul_note(notes: &mut Vec<Note>, s: &[u8]) {
    if s.contains(&0) {
        note(notes, Note::L9);
    }
}

/// Split the first frame off a byte stream.
#[derive(Clone, Copy, Debug, PartialEq, Eq)]
pub enum Split {
    /// control byte, remaining length, header length, minimal length encoding
    Frame { ctl: u8, remlen: u32, hdr: usize, minimal: bool },
    /// fewer bytes than header + declared body
    Incomplete,
    /// 5th length byte would be needed
    BadVarInt,
}

pub fn split_frame(stream: &[u8]) -> Split {
    if stream.is_empty() {
        return Split::Incomplete;
    }
    match varint_dec(&stream[1..]) {
        VarDec::Ok(v, n, minimal) => {
            if stream.len() < 1 + n + v as usize {
                Split::Incomplete
            } else {
                Split::Frame { ctl: stream[0], remlen: v, hdr: 1 + n, minimal }
            }
        }
        VarDec::Incomplete => Split::Incomplete,
        VarDec::TooLong => Split::BadVarInt,
    }
}

/// Decode one *complete* frame (header + exactly the declared number of body bytes).
/// Returns None if `frame` is not exactly one frame (harness misuse).
pub fn ref_decode(fam: Fam, frame: &[u8]) -> Option<RefOut> {
    match split_frame(frame) {
        Split::Frame { ctl, remlen, hdr, minimal } => {
            if hdr + remlen as usize != frame.len() {
                return None;
            }
            let mut notes = Vec::new();
            if !minimal {
                notes.push(Note::NonMinimal);
            }
            Some(match decode_body(fam, ctl, &frame[hdr..], &mut notes) {
                Ok(p) => RefOut::Accept(p, notes),
                Err(e) => RefOut::Reject(e),
            })
        }
        Split::BadVarInt => Some(RefOut::Reject(RefErr::VarInt)),
        Split::Incomplete => None,
    }
}

pub fn check_header(fam: Fam, ctl: u8) -> R<u8> {
    let typ = ctl >> 4;
    let flags = ctl & 0x0f;
    if !type_exists(fam, typ) {
        return Err(RefErr::Header);
    }
    match required_flags(typ) {
        None => {
            let qos = (flags >> 1) & 3;
            if qos == 3 {
                return Err(RefErr::Qos(3));
            }
        }
        Some(f) => {
            if flags != f {
                return Err(RefErr::Header);
            }
        }
    }
    Ok(typ)
}

pub fn decode_body(fam: Fam, ctl: u8, body: &[u8], notes: &mut Vec<Note>) -> R<RP> {
    let typ = check_header(fam, ctl)?;
    let mut c = Cur::new(body);
    let p = match typ {
        1 => connect(fam, &mut c, notes)?,
        2 => connack(fam, &mut c, notes)?,
        3 => publish(fam, ctl, &mut c, notes)?,
        4..=7 => ack(fam, typ, &mut c, notes)?,
        8 => subscribe(fam, &mut c, notes)?,
        9 => suback(fam, &mut c, notes)?,
        10 => unsubscribe(fam, &mut c, notes)?,
        11 => unsuback(fam, &mut c, notes)?,
        12 => RP::Pingreq,
        13 => RP::Pingresp,
        14 => disconnect(fam, &mut c, notes)?,
        15 => auth(&mut c, notes)?,
        _ => return Err(RefErr::Header),
    };
    if c.left() != 0 {
        return Err(RefErr::RemLen);
    }
    Ok(p)
}

/// Parse a property section for context `ctx` (packet type number, or CTX_WILL).
pub fn properties(c: &mut Cur, ctx: u8, notes: &mut Vec<Note>) -> R<Props> {
    let plen = c.varint(notes)?;
    let start = c.pos;
    let mut props: Props = Vec::new();
    while c.pos - start < plen as usize {
        let id = c.u8()?;
        let spec = match prop_spec(id) {
            Some(s) => s,
            None => return Err(RefErr::PropId(id)),
        };
        if !spec.allowed.contains(&ctx) {
            return Err(if ctx == CTX_WILL { RefErr::WillPropNotAllowed(id) } else { RefErr::PropNotAllowed(ctx, id) });
        }
        if id != USER_PROPERTY && props.iter().any(|(i, _)| *i == id) {
            if id == 0x0B && ctx == 3 {
                // MQTT 5.0 §3.3.2.3.8: several Subscription Identifiers are legal in PUBLISH.
                note(notes, Note::S1);
            } else {
                return Err(RefErr::DupProp(id));
            }
        }
        let v = match spec.kind {
            PK::Byte => {
                let v = c.u8()?;
                if byte_prop_is_01(id) && v > 1 {
                    return Err(RefErr::ByteProp(id, v));
                }
                PV::Byte(v)
            }
            PK::U16 => PV::U16(c.u16()?),
            PK::U32 => PV::U32(c.u32()?),
            PK::Var => PV::Var(c.varint(notes)?),
            PK::Str => {
                let s = c.string()?;
                if id == 0x08 {
                    if !valid_topic_name(s) {
                        return Err(RefErr::ResponseTopic);
                    }
                    if s.is_empty() {
                        note(notes, Note::L5);
                    }
                } else {
                    nul_note(notes, s);
                }
                PV::Str(s.to_vec())
            }
            PK::Bin => PV::Bin(c.bin()?.to_vec()),
            PK::Pair => {
                let k = c.string()?;
                let v = c.string()?;
                nul_note(notes, k);
                nul_note(notes, v);
                PV::Pair(k.to_vec(), v.to_vec())
            }
        };
        // semantic don't-cares
        match (id, &v) {
            (0x0B, PV::Var(0)) => note(notes, Note::L7),
            (0x21, PV::U16(0)) => note(notes, Note::L7),
            (0x27, PV::U32(0)) => note(notes, Note::L7),
            (0x23, PV::U16(0)) => note(notes, Note::L5),
            _ => {}
        }
        props.push((id, v));
    }
    if c.pos - start != plen as usize {
        return Err(RefErr::PropLen(plen));
    }
    if props.iter().any(|(i, _)| *i == 0x16) && !props.iter().any(|(i, _)| *i == 0x15) {
        note(notes, Note::L7);
    }
    Ok(props)
}

fn has_prop(p: &Props, id: u8) -> bool {
    p.iter().any(|(i, _)| *i == id)
}

fn payload_format_utf8(p: &Props) -> bool {
    p.iter().any(|(i, v)| *i == 0x01 && *v == PV::Byte(1))
}

fn connect(fam: Fam, c: &mut Cur, notes: &mut Vec<Note>) -> R<RP> {
    let name = c.bin()?.to_vec();
    let level = c.u8()?;
    let known = matches!((&name[..], level), (b"MQIsdp", 3) | (b"MQTT", 4) | (b"MQTT", 5));
    if !known {
        if !utf8_ok(&name) {
            return Err(RefErr::BadString);
        }
        return Err(RefErr::Protocol(name, level));
    }
    let is5 = level == 5;
    if is5 != (fam == Fam::V5) {
        return Err(RefErr::UnexpectedProtocol(level));
    }
    let flags = c.u8()?;
    if flags & 1 != 0 {
        return Err(RefErr::ConnectFlags(flags));
    }
    let keep_alive = c.u16()?;
    let props = if is5 { properties(c, 1, notes)? } else { Vec::new() };
    let client_id = c.string()?.to_vec();
    nul_note(notes, &client_id);
    let will_flag = flags & 0b100 != 0;
    let will_qos = (flags >> 3) & 3;
    let will_retain = flags & 0b10_0000 != 0;
    let will = if will_flag {
        if is5 {
            if will_qos == 3 {
                return Err(RefErr::Qos(3));
            }
            let wprops = properties(c, CTX_WILL, notes)?;
            let topic = c.string()?.to_vec();
            if !valid_topic_name(&topic) {
                return Err(RefErr::TopicName(topic));
            }
            let payload = c.bin()?.to_vec();
            if payload_format_utf8(&wprops) && !utf8_ok(&payload) {
                return Err(RefErr::PayloadFormat);
            }
            if topic.is_empty() {
                note(notes, Note::L5);
            }
            Some(RWill { qos: will_qos, retain: will_retain, topic, payload, props: wprops })
        } else {
            let topic = c.string()?.to_vec();
            let payload = c.bin()?.to_vec();
            if will_qos == 3 {
                return Err(RefErr::Qos(3));
            }
            if !valid_topic_name(&topic) {
                return Err(RefErr::TopicName(topic));
            }
            if topic.is_empty() {
                note(notes, Note::L5);
            }
            Some(RWill { qos: will_qos, retain: will_retain, topic, payload, props: Vec::new() })
        }
    } else {
        if will_qos != 0 {
            return Err(RefErr::ConnectFlags(flags));
        }
        if will_retain {
            note(notes, Note::L1);
        }
        None
    };
    let username = if flags & 0x80 != 0 {
        let s = c.string()?.to_vec();
        nul_note(notes, &s);
        Some(s)
    } else {
        None
    };
    let password = if flags & 0x40 != 0 { Some(c.bin()?.to_vec()) } else { None };
    if !is5 {
        if password.is_some() && username.is_none() {
            note(notes, Note::L2);
        }
        let clean = flags & 2 != 0;
        if level == 4 && client_id.is_empty() && !clean {
            note(notes, Note::L3);
        }
        if level == 3 && (client_id.is_empty() || client_id.len() > 23) {
            note(notes, Note::L3);
        }
    }
    Ok(RP::Connect { name, level, clean: flags & 2 != 0, keep_alive, client_id, will, username, password, props })
}

fn connack(fam: Fam, c: &mut Cur, notes: &mut Vec<Note>) -> R<RP> {
    let two = c.take(2)?;
    let (flags, code) = (two[0], two[1]);
    if flags > 1 {
        return Err(RefErr::ConnackFlags(flags));
    }
    let props = match fam {
        Fam::V3 => {
            if !CONNACK_V3.contains(&code) {
                return Err(RefErr::ConnectReturnCode(code));
            }
            Vec::new()
        }
        Fam::V5 => {
            if !CONNACK_V5.contains(&code) {
                return Err(RefErr::ReasonCode(2, code));
            }
            properties(c, 2, notes)?
        }
    };
    if flags == 1 && code != 0 {
        note(notes, Note::L4);
    }
    Ok(RP::Connack { sp: flags == 1, code, props })
}

fn publish(fam: Fam, ctl: u8, c: &mut Cur, notes: &mut Vec<Note>) -> R<RP> {
    let dup = ctl & 0b1000 != 0;
    let qos = (ctl >> 1) & 3;
    let retain = ctl & 1 != 0;
    let topic = c.string()?.to_vec();
    let pid = if qos > 0 {
        let p = c.u16()?;
        if p == 0 {
            return Err(RefErr::ZeroPid);
        }
        Some(p)
    } else {
        None
    };
    let props = if fam == Fam::V5 { properties(c, 3, notes)? } else { Vec::new() };
    let payload = c.take(c.left())?.to_vec();
    if payload_format_utf8(&props) && !utf8_ok(&payload) {
        return Err(RefErr::PayloadFormat);
    }
    if !valid_topic_name(&topic) {
        return Err(RefErr::TopicName(topic));
    }
    if dup && qos == 0 {
        note(notes, Note::L5);
    }
    if topic.is_empty() {
        // v5: legal together with a Topic Alias; otherwise a protocol error the crate tolerates
        if fam == Fam::V3 || !has_prop(&props, 0x23) {
            note(notes, Note::L5);
        }
    }
    Ok(RP::Publish { dup, qos, retain, topic, pid, props, payload })
}

fn pid(c: &mut Cur) -> R<u16> {
    let p = c.u16()?;
    if p == 0 {
        return Err(RefErr::ZeroPid);
    }
    Ok(p)
}

fn ack(fam: Fam, typ: u8, c: &mut Cur, notes: &mut Vec<Note>) -> R<RP> {
    let total = c.b.len();
    let p = pid(c)?;
    if fam == Fam::V3 || total == 2 {
        return Ok(RP::Ack { typ, pid: p, code: 0, props: Vec::new() });
    }
    let code = c.u8()?;
    if !v5_codes(typ).contains(&code) {
        return Err(RefErr::ReasonCode(typ, code));
    }
    let props = if total >= 4 { properties(c, typ, notes)? } else { Vec::new() };
    Ok(RP::Ack { typ, pid: p, code, props })
}

fn filter(c: &mut Cur) -> R<Vec<u8>> {
    let f = c.string()?.to_vec();
    if !valid_filter(&f) {
        return Err(RefErr::TopicFilter(f));
    }
    Ok(f)
}

fn subscribe(fam: Fam, c: &mut Cur, notes: &mut Vec<Note>) -> R<RP> {
    let p = pid(c)?;
    let props = if fam == Fam::V5 { properties(c, 8, notes)? } else { Vec::new() };
    if c.left() == 0 {
        return Err(RefErr::EmptySubscription);
    }
    let mut topics = Vec::new();
    while c.left() > 0 {
        let f = filter(c)?;
        let o = c.u8()?;
        match fam {
            Fam::V3 => {
                if o > 2 {
                    return Err(RefErr::Qos(o));
                }
            }
            Fam::V5 => {
                if o & 0b1100_0000 != 0 || o & 3 == 3 || (o >> 4) & 3 == 3 {
                    return Err(RefErr::SubOpt(o));
                }
                if o & 0b100 != 0 && f.starts_with(b"$share/") {
                    note(notes, Note::L8);
                }
            }
        }
        topics.push((f, o));
    }
    Ok(RP::Subscribe { pid: p, props, topics })
}

fn suback(fam: Fam, c: &mut Cur, notes: &mut Vec<Note>) -> R<RP> {
    let p = pid(c)?;
    let props = if fam == Fam::V5 { properties(c, 9, notes)? } else { Vec::new() };
    let mut codes = Vec::new();
    while c.left() > 0 {
        let v = c.u8()?;
        match fam {
            Fam::V3 => {
                if !SUBACK_V3.contains(&v) {
                    return Err(RefErr::Qos(v));
                }
            }
            Fam::V5 => {
                if !SUBACK_V5.contains(&v) {
                    return Err(RefErr::ReasonCode(9, v));
                }
            }
        }
        codes.push(v);
    }
    if codes.is_empty() {
        note(notes, Note::L6);
    }
    Ok(RP::Suback { pid: p, props, codes })
}

fn unsubscribe(fam: Fam, c: &mut Cur, notes: &mut Vec<Note>) -> R<RP> {
    let p = pid(c)?;
    let props = if fam == Fam::V5 { properties(c, 10, notes)? } else { Vec::new() };
    if c.left() == 0 {
        return Err(RefErr::EmptySubscription);
    }
    let mut topics = Vec::new();
    while c.left() > 0 {
        topics.push(filter(c)?);
    }
    Ok(RP::Unsubscribe { pid: p, props, topics })
}

fn unsuback(fam: Fam, c: &mut Cur, notes: &mut Vec<Note>) -> R<RP> {
    let p = pid(c)?;
    if fam == Fam::V3 {
        return Ok(RP::Unsuback { pid: p, props: Vec::new(), codes: Vec::new() });
    }
    let props = properties(c, 11, notes)?;
    let mut codes = Vec::new();
    while c.left() > 0 {
        let v = c.u8()?;
        if !UNSUBACK_V5.contains(&v) {
            return Err(RefErr::ReasonCode(11, v));
        }
        codes.push(v);
    }
    if codes.is_empty() {
        note(notes, Note::L6);
    }
    Ok(RP::Unsuback { pid: p, props, codes })
}

fn disconnect(fam: Fam, c: &mut Cur, notes: &mut Vec<Note>) -> R<RP> {
    if fam == Fam::V3 || c.b.is_empty() {
        return Ok(RP::Disconnect { code: 0, props: Vec::new() });
    }
    let total = c.b.len();
    let code = c.u8()?;
    if !DISCONNECT_V5.contains(&code) {
        return Err(RefErr::ReasonCode(14, code));
    }
    let props = if total >= 2 { properties(c, 14, notes)? } else { Vec::new() };
    Ok(RP::Disconnect { code, props })
}

fn auth(c: &mut Cur, notes: &mut Vec<Note>) -> R<RP> {
    if c.b.is_empty() {
        return Ok(RP::Auth { code: 0, props: Vec::new() });
    }
    let total = c.b.len();
    let code = c.u8()?;
    if !AUTH_V5.contains(&code) {
        return Err(RefErr::ReasonCode(15, code));
    }
    if total == 1 {
        note(notes, Note::A1);
        return Ok(RP::Auth { code, props: Vec::new() });
    }
    let props = properties(c, 15, notes)?;
    if !has_prop(&props, 0x15) {
        note(notes, Note::L7);
    }
    Ok(RP::Auth { code, props })
}

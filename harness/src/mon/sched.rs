//! Monitors over delivery schedules, cut points, packet sequences and fault plans:
//! C05 (schedule independence / cancellation safety), C07 (prefixes incomplete, suffixes
//! ignored), C08 (framing of back-to-back packets), C14 (transport failures surface as I/O errors).

use std::io;

use crate::ev::{guard, hex_short, panic_sig, Case, Ctx};
use crate::fe::*;
use crate::gen;
use crate::io::{RFault, ScriptedReader, ScriptedWriter, Step, WFault, KINDS};
use crate::mon::grammar;
use crate::mon::valid::{body_stream, enc_async_pub, short};
use crate::refdec::{split_frame, Split};
use crate::refenc::{ref_bytes, ref_encode, Spelling};
use crate::refm::*;
use crate::rng::{fnv_bytes, Rng};
use crate::wl;

fn scase(fam: Fam, b: &[u8], sched: &[Step], mode: PollMode) -> Case {
    Case::new("sched", fam.n(), b).p("schedule", wl::schedule_text(sched)).p("mode", if mode == PollMode::Keep { "keep" } else { "recreate" })
}

// ------------------------------------------------------------------------------------------
// C05

pub type R0 = Result<PollOk, Er>;

fn r0_class(r: &R0) -> String {
    match r {
        Ok(ok) => format!("packet:{}", ok.pkt.type_name()),
        Err(e) => e.class(),
    }
}

pub fn baseline(fam: Fam, b: &[u8]) -> Result<(R0, usize), String> {
    match guard(|| dec_poll_bytes(fam, b)) {
        Ok((Drive::Done(v), pos)) => Ok((v, pos)),
        Ok((Drive::Stuck(e), _)) => Err(format!("stuck: {:?}", e)),
        Err(p) => Err(format!("panic: {}", p)),
    }
}

/// One run of stream `b` under `sched`/`mode`, compared with the uninterrupted baseline.
pub fn c05_run(c: &mut Ctx, fam: Fam, b: &[u8], base: &(R0, usize), sched: &[Step], mode: PollMode) {
    c.eval();
    let f = fam.n();
    crate::alloc::set_current(b, f, 6);
    let mut rd = ScriptedReader::new(b, sched);
    let budget = b.len() * 2 + sched.len() * 2 + 16;
    let run = match guard(|| drive_poll(fam, &mut rd, mode, budget)) {
        Ok(r) => r,
        Err(p) => {
            c.violation(format!("C05:v{}:panic:{}", f, panic_sig(&p)), format!("poll decoder panicked under a schedule: {}", p), scase(fam, b, sched, mode));
            return;
        }
    };
    let cls = r0_class(&base.0);
    match &run.out {
        Drive::Stuck(crate::io::RunErr::LostWake { polls }) => {
            c.violation(format!("C05:v{}:lost-wakeup", f), format!("Pending returned without the task's waker having been registered (poll {})", polls), scase(fam, b, sched, mode));
            return;
        }
        Drive::Stuck(e) => {
            c.violation(format!("C05:v{}:no-progress", f), format!("decoder did not finish within the poll budget: {:?}", e), scase(fam, b, sched, mode));
            return;
        }
        Drive::Done(res) => {
            if *res != base.0 {
                c.violation(
                    format!("C05:v{}:result-differs:{}:{}", f, cls, r0_class(res)),
                    format!("result under the schedule {:?} differs from the uninterrupted result {:?}", short_r0(res), short_r0(&base.0)),
                    scase(fam, b, sched, mode),
                );
            }
            if let Ok(ok) = res {
                if rd.pos != ok.total {
                    c.violation(
                        format!("C05:v{}:consumed-vs-total:{}", f, ok.pkt.type_name()),
                        format!("decoder took {} bytes from the transport but reports total {}", rd.pos, ok.total),
                        scase(fam, b, sched, mode),
                    );
                }
            }
        }
    }
    for msg in &run.contract {
        if msg.starts_with("Pending invented") {
            c.violation(format!("C05:v{}:pending-invented", f), msg.clone(), scase(fam, b, sched, mode));
        } else {
            // "Ready in a poll in which the transport pended" is not forbidden by the property's wording
            // (a wrong result or a read beyond the frame is caught by the other checks): observed, not judged
            c.count("observed.ready-after-transport-pending");
        }
    }
    if let Some(msg) = check_asks(&rd.log, b, 0) {
        let key = if msg.starts_with("header") { "header-overask" } else { "body-overask" };
        c.violation(format!("C05:v{}:{}", f, key), msg, scase(fam, b, sched, mode));
    }
    // state snapshots at every Pending (Recreate mode)
    for (pos, snap) in &run.snaps {
        match snap {
            Snap::Header { have_ctl, var_idx, .. } => {
                c.count(&format!("resume.header.ctl={}.var_idx={}", *have_ctl as u8, var_idx));
                // the layout of the caller-held state is the implementation's business (the property only
                // demands that re-creating the future from it works, which the result comparison decides):
                // recorded as an observation of the resume points reached, not judged
                if *pos != *have_ctl as usize + *var_idx as usize {
                    c.count("observed.header-state-not-byte-count");
                }
            }
            Snap::Body { total, idx, buf_len, remaining_len } => {
                let bucket = if *remaining_len == 0 { 0 } else { idx * 4 / remaining_len };
                c.count(&format!("resume.body.quarter={}", bucket));
                let hdr = total - remaining_len;
                if *pos != hdr + idx || buf_len != remaining_len {
                    c.count("observed.body-state-not-byte-count");
                }
            }
        }
    }
    c.countn("recreations", run.recreations as u64);
    c.countn("pendings", rd.pendings as u64);
}

fn short_r0(r: &R0) -> String {
    match r {
        Ok(ok) => format!("Ok(total={}, {})", ok.total, short(&ok.pkt)),
        Err(e) => format!("Err({:?})", e),
    }
}

fn c05_clone_resume(c: &mut Ctx, r: &mut Rng, fam: Fam, b: &[u8], base: &(R0, usize), sched: &[Step]) {
    let npend = sched.iter().filter(|s| **s == Step::Pending).count();
    if npend == 0 {
        return;
    }
    let at = r.below(npend as u64) as usize;
    c05_clone_resume_at(c, fam, b, base, sched, at);
}

fn c05_clone_resume_at(c: &mut Ctx, fam: Fam, b: &[u8], base: &(R0, usize), sched: &[Step], at: usize) {
    c.eval();
    let budget = b.len() * 2 + sched.len() * 2 + 16;
    match guard(|| drive_poll_clone_resume(fam, b, sched, at, budget)) {
        Err(p) => c.violation(format!("C05:v{}:clone:panic:{}", fam.n(), panic_sig(&p)), format!("panic in clone-resume: {}", p), scase(fam, b, sched, PollMode::Recreate).p("clone_at", at)),
        Ok((_run, second)) => {
            if let Some(Drive::Done(res)) = second {
                c.count("clone-resumes");
                if res != base.0 {
                    c.violation(
                        format!("C05:v{}:clone-resume-differs:{}", fam.n(), r0_class(&base.0)),
                        format!("state cloned at Pending #{} and resumed gives {:?}, uninterrupted gives {:?}", at, short_r0(&res), short_r0(&base.0)),
                        scase(fam, b, sched, PollMode::Recreate).p("clone_at", at),
                    );
                }
            }
        }
    }
}

/// All schedules of a short stream: every composition into chunks x every subset of chunks
/// preceded by a Pending x optional Pending before the read after the last byte.
pub fn for_all_schedules(n: usize, f: &mut dyn FnMut(&[Step])) {
    if n == 0 {
        f(&[]);
        f(&[Step::Pending]);
        return;
    }
    let mut s = Vec::new();
    for cuts in 0..(1u32 << (n - 1)) {
        // chunk sizes
        let mut sizes = Vec::new();
        let mut run = 1;
        for i in 0..n - 1 {
            if cuts & (1 << i) != 0 {
                sizes.push(run);
                run = 1;
            } else {
                run += 1;
            }
        }
        sizes.push(run);
        let k = sizes.len();
        for pend in 0..(1u32 << (k + 1)) {
            s.clear();
            for (i, sz) in sizes.iter().enumerate() {
                if pend & (1 << i) != 0 {
                    s.push(Step::Pending);
                }
                s.push(Step::Give(*sz));
            }
            if pend & (1 << k) != 0 {
                s.push(Step::Pending);
            }
            f(&s);
        }
    }
}

/// Short streams of every packet type and of the interesting malformed / incomplete shapes.
pub fn short_streams(r: &mut Rng, fam: Fam, maxlen: usize) -> Vec<Vec<u8>> {
    let mut out: Vec<Vec<u8>> = Vec::new();
    let v5 = fam == Fam::V5;
    let sp = Spelling::default();
    let mut add = |b: Vec<u8>| {
        if b.len() <= maxlen && !out.contains(&b) {
            out.push(b);
        }
    };
    // smallest packet of every type
    let minimal: Vec<RP> = vec![
        RP::Connack { sp: true, code: 0, props: Vec::new() },
        RP::Publish { dup: false, qos: 0, retain: true, topic: b"a".to_vec(), pid: None, props: Vec::new(), payload: b"xy".to_vec() },
        RP::Publish { dup: true, qos: 2, retain: false, topic: b"a".to_vec(), pid: Some(513), props: Vec::new(), payload: Vec::new() },
        RP::Ack { typ: 4, pid: 258, code: 0, props: Vec::new() },
        RP::Ack { typ: 5, pid: 1, code: if v5 { 0x10 } else { 0 }, props: Vec::new() },
        RP::Ack { typ: 6, pid: 65_535, code: if v5 { 0x92 } else { 0 }, props: Vec::new() },
        RP::Ack { typ: 7, pid: 7, code: 0, props: Vec::new() },
        RP::Subscribe { pid: 3, props: Vec::new(), topics: vec![(b"a".to_vec(), 1)] },
        RP::Suback { pid: 3, props: Vec::new(), codes: vec![if v5 { 0x80 } else { 2 }] },
        RP::Unsubscribe { pid: 3, props: Vec::new(), topics: vec![b"#".to_vec()] },
        RP::Unsuback { pid: 3, props: Vec::new(), codes: if v5 { vec![0x11] } else { Vec::new() } },
        RP::Pingreq,
        RP::Pingresp,
        RP::Disconnect { code: 0, props: Vec::new() },
    ];
    for p in &minimal {
        add(ref_bytes(fam, p));
    }
    if v5 {
        add(ref_bytes(fam, &RP::Disconnect { code: 0x8E, props: Vec::new() }));
        add(ref_bytes(fam, &RP::Auth { code: 0, props: Vec::new() }));
        add(ref_bytes(fam, &RP::Auth { code: 0x18, props: Vec::new() }));
        add(ref_encode(fam, &RP::Ack { typ: 4, pid: 9, code: 0, props: Vec::new() }, &Spelling { long_form: 2, ..sp }).bytes());
        add(ref_bytes(fam, &RP::Ack { typ: 5, pid: 9, code: 0x80, props: vec![(0x1F, PV::Str(b"r".to_vec()))] }));
    }
    // non-minimal and over-long length fields, incl. the zero length spelled in 2..4 bytes
    for ctl in [0xC0u8, 0xD0, 0xE0, 0x40, 0x30] {
        add(vec![ctl, 0x80, 0x00]);
        add(vec![ctl, 0x80, 0x80, 0x00]);
        add(vec![ctl, 0x80, 0x80, 0x80, 0x00]);
        add(vec![ctl, 0x80, 0x80, 0x80, 0x80, 0x00]);
        add(vec![ctl, 0x82, 0x00, 0x00, 0x05]);
        add(vec![ctl, 0x82, 0x80, 0x00, 0x00, 0x05]);
    }
    if v5 {
        add(vec![0xF0, 0x80, 0x00]);
    }
    // malformed: bad header, zero pid, leftover, truncated, declared length larger than the stream
    add(vec![0x00, 0x00]);
    add(vec![0x41, 0x02, 0x00, 0x01]);
    add(vec![0x40, 0x02, 0x00, 0x00]);
    add(vec![0x40, 0x03, 0x00, 0x01, 0x00]);
    add(vec![0x40, 0x02, 0x00]);
    add(vec![0x40]);
    add(Vec::new());
    add(vec![0x36, 0x03, 0x00, 0x01, 0x61]);
    add(vec![0xC0, 0x01, 0x00]);
    add(vec![0xC0, 0x02, 0x00]);
    add(vec![0x30, 0x05, 0x00, 0x01, 0x61]);
    add(vec![0x82, 0x02, 0x00, 0x01]);
    add(vec![0x20, 0x02, 0x02, 0x00]);
    add(vec![0x30, 0x04, 0x00, 0x02, 0xff, 0xfe]);
    for _ in 0..12 {
        let n = r.range(1, maxlen.min(6));
        add(wl::random_stream(r, n));
    }
    // two packets back to back (the decoder must stop after the first)
    add(vec![0xC0, 0x00, 0xD0, 0x00]);
    add(vec![0x40, 0x02, 0x00, 0x01, 0xC0, 0x00]);
    out
}

pub fn c05(ctx: &mut Ctx, layer: &str) {
    let (maxlen, n_rand): (usize, usize) = match layer {
        "miri" => (if ctx.thorough { 4 } else { 3 }, if ctx.thorough { 4_000 } else { 120 }),
        "vg" => (6, if ctx.thorough { 400_000 } else { 10_000 }),
        "asan" => (8, 1_500_000),
        _ => {
            if ctx.thorough {
                (10, 5_000_000)
            } else {
                (7, 500_000)
            }
        }
    };
    let miri = layer == "miri";
    wl::par(ctx, |w, n, c, r| {
        for fam in [Fam::V3, Fam::V5] {
            // exhaustive schedules over the short streams (same list in every worker: fixed seed)
            let mut sr = Rng::for_worker(c.seed, "C05-short", fam.n() as u64);
            let mut streams = short_streams(&mut sr, fam, maxlen);
            if miri {
                streams.truncate(12);
            }
            for (i, b) in streams.iter().enumerate() {
                if i % n != w {
                    continue;
                }
                let base = match baseline(fam, b) {
                    Ok(x) => x,
                    Err(e) => {
                        c.violation(format!("C05:v{}:baseline", fam.n()), format!("uninterrupted decode failed: {}", e), Case::new("sched", fam.n(), b));
                        continue;
                    }
                };
                c.count(&format!("short.v{}.{}", fam.n(), r0_class(&base.0)));
                c.sample(|| format!("v{} short stream {} -> {}", fam.n(), hex_short(b), r0_class(&base.0)));
                let mut nsched = 0u64;
                for_all_schedules(b.len(), &mut |s| {
                    for mode in [PollMode::Keep, PollMode::Recreate] {
                        c05_run(c, fam, b, &base, s, mode);
                    }
                    // state cloned at each of the first Pendings, original finished, clone resumed
                    let npend = s.iter().filter(|x| **x == Step::Pending).count();
                    for at in 0..npend.min(3) {
                        c05_clone_resume_at(c, fam, b, &base, s, at);
                    }
                    nsched += 1;
                });
                c.distinct_direct += nsched * 2;
                c.countn("exhaustive.schedules", nsched * 2);
                c.count("exhaustive.streams");
            }
            // random schedules over longer streams
            let per = n_rand / n / 2 + 1;
            let mut mal = Vec::new();
            let mut i = 0;
            while i < per {
                let big = r.chance(1, 40) && !miri;
                let rp = if big {
                    let t = *r.pick(&[130usize, 200, 16_383, 16_384, 16_500, 70_000, 300_000, 2_097_152, 2_097_200, 4_194_400, 5_300_000]);
                    if t > 100_000 && layer == "vg" {
                        gen::gen_any(r, fam)
                    } else {
                        {
                        let sh = r.below(3) as u8;
                        gen::gen_sized(r, fam, t, sh)
                    }
                    }
                } else {
                    gen::gen_any(r, fam)
                };
                let host = grammar::host_frame(r, fam, &rp);
                let mut streams: Vec<Vec<u8>> = vec![host.bytes()];
                if !big && r.chance(1, 3) {
                    mal.clear();
                    grammar::malformations(r, fam, &host, &mut mal);
                    for _ in 0..3 {
                        if !mal.is_empty() {
                            let k = r.below(mal.len() as u64) as usize;
                            streams.push(mal[k].bytes.clone());
                        }
                    }
                    // a truncated stream and one with a following packet
                    let e = host.bytes();
                    let cut = r.below(e.len() as u64) as usize;
                    streams.push(e[..cut].to_vec());
                    let mut two = e.clone();
                    two.extend_from_slice(&ref_bytes(fam, &gen::gen_any(r, fam)));
                    streams.push(two);
                    // non-minimal remaining length
                    streams.push(ref_encode(fam, &rp, &Spelling { remlen_width: r.range(2, 4) as u8, ..Spelling::default() }).bytes());
                }
                for b in &streams {
                    let base = match baseline(fam, b) {
                        Ok(x) => x,
                        Err(e) => {
                            c.violation(format!("C05:v{}:baseline", fam.n()), format!("uninterrupted decode failed: {}", e), Case::new("sched", fam.n(), b));
                            continue;
                        }
                    };
                    let hdr = match split_frame(b) {
                        Split::Frame { hdr, .. } => hdr,
                        _ => 2,
                    };
                    c.count(&format!("random.v{}.{}.hdr{}", fam.n(), r0_class(&base.0), hdr));
                    for j in 0..(if big { 4 } else { 4 }) {
                        // long streams: half of the schedules deliver in power-of-two blocks (from the stream
                        // or the body start, +-1), with and without a stall at the block edge
                        let s = wl::rand_schedule_styled(r, b.len(), hdr, big && j % 2 == 1);
                        let mode = if r.bool() { PollMode::Keep } else { PollMode::Recreate };
                        c.distinct(fnv_bytes(fnv_bytes(fam.n() as u64, b), wl::schedule_text(&s).as_bytes()));
                        c05_run(c, fam, b, &base, &s, mode);
                        if r.chance(1, 4) {
                            c05_clone_resume(c, r, fam, b, &base, &s);
                        }
                        i += 1;
                    }
                }
            }
        }
    });
}

// ------------------------------------------------------------------------------------------
// C07

fn cuts_for(r: &mut Rng, len: usize, hdr: usize) -> Vec<usize> {
    if cfg!(miri) && len > 10 {
        // under Miri: the structure edges and a few random cuts per packet
        let mut v: Vec<usize> = vec![0, 1, hdr.saturating_sub(1), hdr, hdr + 1, len - 1];
        for _ in 0..4 {
            v.push(r.below(len as u64) as usize);
        }
        v.retain(|c| *c < len);
        v.sort_unstable();
        v.dedup();
        return v;
    }
    if len <= 4096 {
        return (0..len).collect();
    }
    let mut v: Vec<usize> = Vec::new();
    for e in [0usize, 1, 2, 3, 4, hdr, hdr + 1, hdr + 2, hdr + 3, len - 1, len - 2, len - 3] {
        if e < len {
            v.push(e);
        }
    }
    if hdr >= 2 {
        v.push(hdr - 1);
        v.push(hdr - 2);
    }
    for _ in 0..64 {
        v.push(r.below(len as u64) as usize);
    }
    v.sort_unstable();
    v.dedup();
    v
}

pub fn c07_packet(c: &mut Ctx, r: &mut Rng, fam: Fam, rp: &RP, case: &Case) {
    let f = fam.n();
    let t = TYPE_NAMES[rp.typ() as usize];
    let lib = match Pkt::from_ref(fam, rp) {
        Some(l) => l,
        None => {
            c.harness_error("generator produced a value outside the codec domain");
            return;
        }
    };
    let enc = match guard(|| lib.encode()) {
        Ok(Ok(e)) => e,
        _ => {
            c.inconclusive("encode failed for a valid packet (see C01/C02)");
            return;
        }
    };
    let hdr = match split_frame(&enc) {
        Split::Frame { hdr, .. } => hdr,
        _ => {
            c.inconclusive("encoder output is not one frame (see C02)");
            return;
        }
    };
    c.count(&format!("v{}.{}", f, t));
    c.distinct(fnv_bytes(f as u64, &enc));
    c.sample(|| format!("v{} {} ({} bytes, {} cuts)", f, t, enc.len(), enc.len().min(4096)));
    let cuts = cuts_for(r, enc.len(), hdr);
    c.countn("cuts", cuts.len() as u64);
    if enc.len() <= 4096 && !cfg!(miri) {
        c.count("all-cuts-covered");
    }
    for k in cuts {
        c.eval();
        let pre = &enc[..k];
        let field = if k < hdr { "header" } else { "body" };
        let kcase = || case.clone().p("cut", k);
        match guard(|| dec_block(fam, pre)) {
            Ok(DecOut::Incomplete) => {}
            Ok(o) => c.violation(
                format!("C07:v{}:{}:prefix:block:{}:{}", f, t, field, o.class()),
                format!("blocking decoder returned {:?} for a {}-byte prefix of a {}-byte encoding", short_out(&o), k, enc.len()),
                kcase(),
            ),
            Err(p) => c.violation(format!("C07:v{}:{}:prefix:block:panic:{}", f, t, panic_sig(&p)), format!("blocking decoder panicked: {}", p), kcase()),
        }
        match guard(|| dec_async_bytes(fam, pre)) {
            Ok((Drive::Done(Err(e)), _)) if e.is_eof() => {}
            Ok((d, _)) => c.violation(
                format!("C07:v{}:{}:prefix:async:{}", f, t, field),
                format!("async decoder returned {} for a {}-byte prefix (expected an is_eof() error)", fmt_drive(&d), k),
                kcase(),
            ),
            Err(p) => c.violation(format!("C07:v{}:{}:prefix:async:panic:{}", f, t, panic_sig(&p)), format!("async decoder panicked: {}", p), kcase()),
        }
        match guard(|| dec_poll_bytes(fam, pre)) {
            Ok((Drive::Done(Err(e)), _)) if e.is_eof() => {}
            Ok((d, _)) => c.violation(
                format!("C07:v{}:{}:prefix:poll:{}", f, t, field),
                format!(
                    "poll decoder returned {} for a {}-byte prefix (expected an is_eof() error)",
                    match d {
                        Drive::Done(Ok(ok)) => format!("packet {}", short(&ok.pkt)),
                        Drive::Done(Err(e)) => format!("{:?}", e),
                        Drive::Stuck(e) => format!("{:?}", e),
                    },
                    k
                ),
                kcase(),
            ),
            Err(p) => c.violation(format!("C07:v{}:{}:prefix:poll:panic:{}", f, t, panic_sig(&p)), format!("poll decoder panicked: {}", p), kcase()),
        }
    }
    // suffixes
    let other = ref_bytes(fam, &gen::gen_any(r, fam));
    let suffixes: Vec<Vec<u8>> = vec![vec![0], vec![0xff; 8], r.bytes(5), other, vec![enc[0]]];
    for sfx in &suffixes {
        c.eval();
        c.count("suffixes");
        let mut s = enc.clone();
        s.extend_from_slice(sfx);
        let xcase = || case.clone().p("suffix", crate::ev::hex(&sfx[..sfx.len().min(64)]));
        match guard(|| dec_block(fam, &s)) {
            Ok(DecOut::Pkt(p)) if p == lib => {}
            Ok(o) => c.violation(format!("C07:v{}:{}:suffix:block", f, t), format!("blocking decoder returned {:?} when bytes follow the encoding", short_out(&o)), xcase()),
            Err(p) => c.violation(format!("C07:v{}:{}:suffix:block:panic:{}", f, t, panic_sig(&p)), format!("blocking decoder panicked: {}", p), xcase()),
        }
        match guard(|| dec_async_bytes(fam, &s)) {
            Ok((Drive::Done(Ok(p)), pos)) if p == lib => {
                if pos != enc.len() {
                    // how much was consumed is C08's subject; C07 only demands the same packet
                    c.count("observed.suffix-async-consumed-differs");
                }
            }
            Ok((d, _)) => c.violation(format!("C07:v{}:{}:suffix:async", f, t), format!("async decoder returned {} when bytes follow the encoding", fmt_drive(&d)), xcase()),
            Err(p) => c.violation(format!("C07:v{}:{}:suffix:async:panic:{}", f, t, panic_sig(&p)), format!("async decoder panicked: {}", p), xcase()),
        }
    }
}

fn fmt_drive(d: &Drive<Result<Pkt, Er>>) -> String {
    match d {
        Drive::Done(Ok(p)) => format!("packet {}", short(p)),
        Drive::Done(Err(e)) => format!("{:?}", e),
        Drive::Stuck(e) => format!("{:?}", e),
    }
}

fn short_out(o: &DecOut) -> String {
    match o {
        DecOut::Pkt(p) => short(p),
        o => format!("{:?}", o),
    }
}

pub fn c07(ctx: &mut Ctx, layer: &str) {
    let mut sz = crate::mon::valid::sizes(ctx, layer);
    match layer {
        "miri" => sz.g1 = if ctx.thorough { 600 } else { 40 },
        "vg" => sz.g1 = 300,
        _ => {
            sz.g1 = if ctx.thorough { 3_000_000 } else { 60_000 };
            sz.g2_cap = if ctx.thorough { 4096 } else { 256 };
        }
    }
    crate::mon::valid::for_valid(ctx, &sz, c07_packet);
}

// ------------------------------------------------------------------------------------------
// C08

fn c08_sequence(c: &mut Ctx, r: &mut Rng, fam: Fam, seq: &[RP]) {
    c.eval();
    let f = fam.n();
    let mut libs = Vec::new();
    let mut stream = Vec::new();
    let mut bounds = vec![0usize];
    for rp in seq {
        let lib = match Pkt::from_ref(fam, rp) {
            Some(l) => l,
            None => {
                c.harness_error("generator produced a value outside the codec domain");
                return;
            }
        };
        match guard(|| lib.encode()) {
            Ok(Ok(e)) => {
                stream.extend_from_slice(&e);
                bounds.push(stream.len());
                libs.push(lib);
            }
            _ => {
                c.inconclusive("encode failed for a valid packet (see C01/C02)");
                return;
            }
        }
    }
    c.distinct(fnv_bytes(f as u64, &stream[..stream.len().min(4096)]) ^ stream.len() as u64);
    c.countn("packets", libs.len() as u64);
    c.sample(|| format!("v{} {} packets, {} bytes: {}", f, libs.len(), stream.len(), hex_short(&stream)));
    let case = || Case::new("sequence", f, &stream).p("packets", libs.len());
    // (1) blocking, advancing by encode_len() and, independently, by the header helpers
    let mut off = 0usize;
    for (i, lib) in libs.iter().enumerate() {
        match guard(|| dec_block(fam, &stream[off..])) {
            Ok(DecOut::Pkt(p)) if p == *lib => {}
            Ok(o) => {
                c.violation(format!("C08:v{}:block:packet{}", f, if i == 0 { "-first" } else { "-later" }), format!("blocking decoder at offset {} returned {:?}, expected packet #{} {}", off, short_out(&o), i, short(lib)), case());
                return;
            }
            Err(p) => {
                c.violation(format!("C08:v{}:block:panic:{}", f, panic_sig(&p)), format!("blocking decoder panicked: {}", p), case());
                return;
            }
        }
        let by_len = match lib.encode_len() {
            Ok(n) => n,
            Err(_) => {
                c.inconclusive("encode_len failed");
                return;
            }
        };
        // header helpers: total_len / header_len / remaining_len from the header bytes
        let by_helpers = match guard(|| {
            let mut s = &stream[off..];
            let (_, rl) = futures_lite::future::block_on(mqtt_proto::decode_raw_header(&mut s)).ok()?;
            let total = mqtt_proto::total_len(rl as usize).ok()?;
            let h = mqtt_proto::header_len(total);
            let rem = mqtt_proto::remaining_len(total);
            Some((total, h, rem, rl as usize))
        }) {
            Ok(Some(x)) => x,
            _ => {
                c.violation(format!("C08:v{}:helpers:failed", f), "header helpers failed on a valid header".to_string(), case());
                return;
            }
        };
        let want = bounds[i + 1] - bounds[i];
        if by_len != want || by_helpers.0 != want || by_helpers.1 + by_helpers.2 != want || by_helpers.2 != by_helpers.3 {
            c.violation(
                format!("C08:v{}:advance", f),
                format!("packet #{} is {} bytes; encode_len {}, total_len {}, header_len {} + remaining_len {}", i, want, by_len, by_helpers.0, by_helpers.1, by_helpers.2),
                case(),
            );
            return;
        }
        off += by_len;
    }
    match guard(|| dec_block(fam, &stream[off..])) {
        Ok(DecOut::Incomplete) if off == stream.len() => {}
        o => c.violation(format!("C08:v{}:block:end", f), format!("after the last packet (offset {} of {}) the blocking decoder returned {:?}", off, stream.len(), o.map(|x| short_out(&x))), case()),
    }
    // (2) async on one reader under a random schedule (chunks straddle packet boundaries)
    let sched = wl::rand_schedule(r, stream.len(), 2);
    {
        let mut rd = ScriptedReader::new(&stream, &sched);
        rd.keep_log = false;
        for (i, lib) in libs.iter().enumerate() {
            match guard(|| dec_async(fam, &mut rd, stream.len() * 2 + sched.len() + 64)) {
                Ok(Drive::Done(Ok(p))) if p == *lib => {
                    if rd.pos != bounds[i + 1] {
                        c.violation(
                            format!("C08:v{}:async:position", f),
                            format!("after packet #{} the async reader is at {} but the packet ends at {}", i, rd.pos, bounds[i + 1]),
                            case().p("schedule", wl::schedule_text(&sched)),
                        );
                        return;
                    }
                }
                o => {
                    c.violation(format!("C08:v{}:async:packet", f), format!("async decoder for packet #{} returned {:?}", i, o.map(|d| fmt_drive(&d))), case().p("schedule", wl::schedule_text(&sched)));
                    return;
                }
            }
        }
        match guard(|| dec_async(fam, &mut rd, 64)) {
            Ok(Drive::Done(Err(e))) if e.is_eof() && rd.pos == stream.len() => {}
            o => c.violation(format!("C08:v{}:async:end", f), format!("after the last packet the async decoder returned {:?}", o.map(|d| fmt_drive(&d))), case()),
        }
    }
    // (3) poll on one reader under a random schedule
    {
        let mut rd = ScriptedReader::new(&stream, &sched);
        let mut sum = 0usize;
        for (i, lib) in libs.iter().enumerate() {
            let start = rd.pos;
            rd.log.clear();
            let mode = if r.bool() { PollMode::Keep } else { PollMode::Recreate };
            let run = match guard(|| drive_poll(fam, &mut rd, mode, stream.len() * 2 + sched.len() + 64)) {
                Ok(r) => r,
                Err(p) => {
                    c.violation(format!("C08:v{}:poll:panic:{}", f, panic_sig(&p)), format!("poll decoder panicked: {}", p), case().p("schedule", wl::schedule_text(&sched)));
                    return;
                }
            };
            match run.out {
                Drive::Done(Ok(ok)) if ok.pkt == *lib => {
                    sum += ok.total;
                    if rd.pos != bounds[i + 1] || ok.total != bounds[i + 1] - bounds[i] {
                        c.violation(
                            format!("C08:v{}:poll:position", f),
                            format!("packet #{}: reported total {}, reader at {}, packet spans {}..{}", i, ok.total, rd.pos, bounds[i], bounds[i + 1]),
                            case().p("schedule", wl::schedule_text(&sched)),
                        );
                        return;
                    }
                    if let Some(msg) = check_asks(&rd.log, &stream, start) {
                        c.violation(format!("C08:v{}:poll:overask", f), format!("packet #{}: {}", i, msg), case().p("schedule", wl::schedule_text(&sched)));
                        return;
                    }
                }
                o => {
                    c.violation(
                        format!("C08:v{}:poll:packet", f),
                        format!("poll decoder for packet #{} returned {}", i, match o {
                            Drive::Done(Ok(ok)) => format!("a different packet {}", short(&ok.pkt)),
                            Drive::Done(Err(e)) => format!("{:?}", e),
                            Drive::Stuck(e) => format!("{:?}", e),
                        }),
                        case().p("schedule", wl::schedule_text(&sched)),
                    );
                    return;
                }
            }
        }
        if sum != stream.len() {
            c.violation(format!("C08:v{}:poll:conservation", f), format!("reported totals add up to {} for a {}-byte stream", sum, stream.len()), case());
        }
        let pos_before = rd.pos;
        match guard(|| drive_poll(fam, &mut rd, PollMode::Keep, 64)) {
            Ok(run) => match run.out {
                Drive::Done(Err(e)) if e.is_eof() && rd.pos == pos_before => {}
                _ => c.violation(format!("C08:v{}:poll:end", f), "after the last packet the poll decoder did not report end-of-input at a clean boundary".to_string(), case()),
            },
            Err(p) => c.violation(format!("C08:v{}:poll:panic:{}", f, panic_sig(&p)), format!("poll decoder panicked: {}", p), case()),
        }
    }
}

/// Two connections served by one thread: their async decoders (and, in between, a blocking and a
/// poll decode of unrelated bytes) are polled alternately, every transport stalling between its
/// pieces. Each connection must still see exactly its own packet sequence — whatever a decoder keeps
/// outside the future (thread-locals, statics) is shared between them.
fn c08_interleaved(c: &mut Ctx, r: &mut Rng, fam: Fam, a: &[RP], b: &[RP]) {
    use std::future::Future;
    let enc = |seq: &[RP]| -> Vec<Vec<u8>> { seq.iter().map(|p| ref_bytes(fam, p)).collect() };
    let (ea, eb) = (enc(a), enc(b));
    let streams: [Vec<u8>; 2] = [ea.concat(), eb.concat()];
    if streams[0].len() + streams[1].len() > 200_000 {
        return;
    }
    c.eval();
    c.count("interleaved.pairs");
    let scheds: [Vec<Step>; 2] = [stalling_schedule(r, streams[0].len()), stalling_schedule(r, streams[1].len())];
    let mut rd0 = ScriptedReader::new(&streams[0], &scheds[0]);
    let mut rd1 = ScriptedReader::new(&streams[1], &scheds[1]);
    rd0.keep_log = false;
    rd1.keep_log = false;
    let want: [&[Vec<u8>]; 2] = [&ea, &eb];
    let mut got: [Vec<Result<Pkt, Er>>; 2] = [Vec::new(), Vec::new()];
    let unrelated = ref_bytes(fam, &gen::gen_any(r, fam));
    let res = guard(|| {
        let mut ex = crate::io::Exec::new();
        // one in-flight decode per connection; the readers are only touched through their futures
        let rd0p: *mut ScriptedReader = &mut rd0;
        let rd1p: *mut ScriptedReader = &mut rd1;
        type Fut<'x> = std::pin::Pin<Box<dyn Future<Output = Result<Pkt, Er>> + 'x>>;
        fn start<'x>(fam: Fam, rd: &'x mut ScriptedReader<'x>) -> Fut<'x> {
            match fam {
                Fam::V3 => Box::pin(async move { mqtt_proto::v3::Packet::decode_async(rd).await.map(Pkt::V3).map_err(Er::V3) }),
                Fam::V5 => Box::pin(async move { mqtt_proto::v5::Packet::decode_async(rd).await.map(Pkt::V5).map_err(Er::V5) }),
            }
        }
        let mut futs: [Option<Fut>; 2] = [None, None];
        let mut polls = 0usize;
        let budget = (streams[0].len() + streams[1].len()) * 4 + 64 * (ea.len() + eb.len()) + 256;
        loop {
            let mut progressed = false;
            for k in 0..2 {
                if got[k].len() >= want[k].len() || matches!(got[k].last(), Some(Err(_))) {
                    continue;
                }
                if futs[k].is_none() {
                    // SAFETY: the previous future borrowing this reader has been dropped (it completed)
                    let rd: &mut ScriptedReader = unsafe { &mut *(if k == 0 { rd0p } else { rd1p }) };
                    futs[k] = Some(start(fam, unsafe { std::mem::transmute::<&mut ScriptedReader, &mut ScriptedReader>(rd) }));
                }
                progressed = true;
                polls += 1;
                if let std::task::Poll::Ready(v) = ex.poll_pinned(futs[k].as_mut().unwrap().as_mut()) {
                    futs[k] = None;
                    got[k].push(v);
                }
                // unrelated decodes on the same thread while the connection is suspended
                if polls % 3 == 0 {
                    let _ = dec_block(fam, &unrelated);
                }
                if polls % 5 == 0 {
                    let _ = dec_poll_bytes(fam, &unrelated);
                }
            }
            if !progressed || polls > budget {
                break;
            }
        }
        polls
    });
    let case = || Case::new("stream", fam.n(), &streams[0]).p("other", crate::ev::hex(&streams[1][..streams[1].len().min(256)])).p("schedule", wl::schedule_text(&scheds[0]));
    match res {
        Err(pm) => c.violation(format!("C08:v{}:interleaved:panic:{}", fam.n(), panic_sig(&pm)), format!("decoding two interleaved connections panicked: {}", pm), case()),
        Ok(_) => {
            for k in 0..2 {
                let expect: Vec<Option<Pkt>> = (if k == 0 { a } else { b }).iter().map(|p| Pkt::from_ref(fam, p)).collect();
                let ok = got[k].len() == expect.len() && got[k].iter().zip(expect.iter()).all(|(g, e)| matches!((g, e), (Ok(p), Some(q)) if p == q));
                if !ok {
                    let first_bad = got[k].iter().position(|g| g.is_err()).unwrap_or(got[k].len());
                    c.violation(
                        format!("C08:v{}:interleaved:async", fam.n()),
                        format!(
                            "connection {} of two served alternately by one thread decoded {} of {} packets; packet {}: {:?}",
                            k,
                            got[k].iter().filter(|g| g.is_ok()).count(),
                            expect.len(),
                            first_bad,
                            got[k].get(first_bad).map(|g| g.as_ref().map(crate::mon::valid::short))
                        ),
                        case(),
                    );
                }
            }
        }
    }
}

/// Pieces of 1..=9 bytes (and some larger), a Pending before most of them.
fn stalling_schedule(r: &mut Rng, len: usize) -> Vec<Step> {
    let mut s = Vec::new();
    let mut left = len;
    while left > 0 && s.len() < 4096 {
        if !r.chance(1, 4) {
            s.push(Step::Pending);
        }
        let k = if r.chance(1, 8) { r.range(1, 300) } else { r.range(1, 9) }.min(left);
        s.push(Step::Give(k));
        left -= k;
    }
    s
}

pub fn c08(ctx: &mut Ctx, layer: &str) {
    let nseq: usize = match layer {
        "miri" => if ctx.thorough { 600 } else { 40 },
        "vg" => 400,
        _ => {
            if ctx.thorough {
                8_000_000
            } else {
                200_000
            }
        }
    };
    let small = matches!(layer, "miri" | "vg");
    wl::par(ctx, |_w, n, c, r| {
        for fam in [Fam::V3, Fam::V5] {
            for i in 0..nseq / n / 2 + 1 {
                let len = if small { r.range(1, 5) } else { r.range(1, 40) };
                let mut seq = Vec::with_capacity(len);
                for j in 0..len {
                    let rp = match r.below(10) {
                        // body-less packets and zero-length payloads next to each other
                        0 => RP::Pingreq,
                        1 => RP::Pingresp,
                        2 => RP::Disconnect { code: 0, props: Vec::new() },
                        3 => RP::Publish { dup: false, qos: 0, retain: false, topic: gen::topic_name(r, false), pid: None, props: Vec::new(), payload: Vec::new() },
                        4 if !small && i % 50 == 0 && j == 0 => {
                            let (t, sh) = (*r.pick(&[128usize, 16_384, 2_097_152, 2_200_003]), r.below(3) as u8);
                            gen::gen_sized(r, fam, t, sh)
                        }
                        4 if !small => {
                            let (t, sh) = (*r.pick(&[127usize, 128, 129, 300]), r.below(3) as u8);
                            gen::gen_sized(r, fam, t, sh)
                        }
                        _ => gen::gen_any(r, fam),
                    };
                    seq.push(rp);
                }
                c08_sequence(c, r, fam, &seq);
                if i % 4 == 0 && seq.len() >= 2 {
                    let mid = seq.len() / 2;
                    c08_interleaved(c, r, fam, &seq[..mid], &seq[mid..]);
                }
            }
        }
    });
}

// ------------------------------------------------------------------------------------------
// C14

fn positions_for(r: &mut Rng, len: usize, hdr: usize) -> Vec<usize> {
    if cfg!(miri) && len > 6 {
        let mut v: Vec<usize> = vec![0, hdr, len - 1, len];
        for _ in 0..3 {
            v.push(r.below(len as u64 + 1) as usize);
        }
        v.sort_unstable();
        v.dedup();
        return v;
    }
    if len <= 2048 {
        return (0..=len).collect();
    }
    let mut v: Vec<usize> = vec![0, 1, 2, 3, hdr.saturating_sub(1), hdr, hdr + 1, hdr + 2, len - 2, len - 1, len];
    for _ in 0..48 {
        v.push(r.below(len as u64 + 1) as usize);
    }
    v.retain(|p| *p <= len);
    v.sort_unstable();
    v.dedup();
    v
}

pub fn c14_packet(c: &mut Ctx, r: &mut Rng, fam: Fam, rp: &RP, case: &Case) {
    let f = fam.n();
    let t = TYPE_NAMES[rp.typ() as usize];
    let lib = match Pkt::from_ref(fam, rp) {
        Some(l) => l,
        None => {
            c.harness_error("generator produced a value outside the codec domain");
            return;
        }
    };
    let enc = match guard(|| lib.encode()) {
        Ok(Ok(e)) => e,
        _ => {
            c.inconclusive("encode failed for a valid packet (see C01/C02)");
            return;
        }
    };
    let hdr = match split_frame(&enc) {
        Split::Frame { hdr, .. } => hdr,
        _ => {
            c.inconclusive("encoder output is not one frame (see C02)");
            return;
        }
    };
    c.count(&format!("v{}.{}", f, t));
    c.distinct(fnv_bytes(f as u64, &enc));
    c.sample(|| format!("v{} {} ({} bytes): faults at every position 0..={}", f, t, enc.len(), enc.len()));
    let pos = positions_for(r, enc.len(), hdr);
    if enc.len() <= 2048 && !cfg!(miri) {
        c.count("all-positions-covered");
    }
    let kinds: Vec<io::ErrorKind> = if enc.len() <= 64 && !cfg!(miri) { KINDS.to_vec() } else { vec![*r.pick(&KINDS), *r.pick(&KINDS)] };
    // read side only: Interrupted is the kind std's synchronous loops retry; tokio's read_exact and the
    // codec's own read sites surface it like any other kind, and the property asks for exactly that
    // (on the write side a persistent Interrupted would legitimately spin inside std's write_all, so
    // it is exercised there as a single transient fault below)
    let rkinds: Vec<io::ErrorKind> = kinds.iter().copied().chain(std::iter::once(io::ErrorKind::Interrupted)).collect();
    for &p in &pos {
        // ---- read faults
        for fault in rkinds.iter().map(|k| RFault::Err(*k)).chain(std::iter::once(RFault::Eof)) {
            c.eval();
            let fcase = || case.clone().p("fault_pos", p).p("fault", format!("{:?}", fault));
            let fname = match fault {
                RFault::Err(k) => {
                    c.count(&format!("read-kind.{:?}", k));
                    "read-error"
                }
                RFault::Eof => "read-eof",
            };
            let judge = |c: &mut Ctx, fe: &str, res: Result<Pkt, Er>, fired: bool| {
                if p >= enc.len() {
                    // the fault lies beyond the packet: it must not change the result
                    match res {
                        Ok(pk) if pk == lib && !fired => {}
                        other => c.violation(
                            format!("C14:v{}:{}:{}:{}:beyond-end", f, t, fe, fname),
                            format!("a fault placed after the last byte changed the result to {:?} (fired: {})", other.as_ref().map(short), fired),
                            fcase(),
                        ),
                    }
                    return;
                }
                match (&fault, res) {
                    (RFault::Err(k), Err(e)) if e.io_kind() == Some(*k) => {}
                    (RFault::Eof, Err(e)) if e.is_eof() => {}
                    (_, other) => c.violation(
                        format!("C14:v{}:{}:{}:{}:{}", f, t, fe, fname, if p < hdr { "header" } else { "body" }),
                        format!("{:?} at byte {} of {} surfaced as {:?}", fault, p, enc.len(), other.as_ref().map(short)),
                        fcase(),
                    ),
                }
            };
            // a quarter of the runs deliver the bytes before the fault in chunks with Pendings
            let sched: Vec<Step> = if r.chance(1, 4) { wl::rand_schedule(r, enc.len(), hdr) } else { Vec::new() };
            let chunked = !sched.is_empty();
            if chunked {
                c.count("read-faults-under-chunked-delivery");
            }
            // async
            {
                let mut rd = ScriptedReader::new(&enc, &sched).with_fault(p, fault);
                rd.keep_log = false;
                match guard(|| dec_async(fam, &mut rd, enc.len() * 2 + sched.len() + 16)) {
                    Ok(Drive::Done(res)) => {
                        let fired = rd.fault_fired;
                        judge(c, "async", res, fired)
                    }
                    Ok(Drive::Stuck(e)) => c.violation(format!("C14:v{}:{}:async:stuck", f, t), format!("{:?}", e), fcase()),
                    Err(pm) => c.violation(format!("C14:v{}:{}:async:panic:{}", f, t, panic_sig(&pm)), format!("async decoder panicked: {}", pm), fcase()),
                }
            }
            // poll
            {
                let mut rd = ScriptedReader::new(&enc, &sched).with_fault(p, fault);
                rd.keep_log = false;
                let mode = if chunked { PollMode::Recreate } else { PollMode::Keep };
                match guard(|| drive_poll(fam, &mut rd, mode, enc.len() * 2 + sched.len() + 16)) {
                    Ok(run) => match run.out {
                        Drive::Done(res) => {
                            let fired = rd.fault_fired;
                            judge(c, "poll", res.map(|ok| ok.pkt), fired)
                        }
                        Drive::Stuck(e) => c.violation(format!("C14:v{}:{}:poll:stuck", f, t), format!("{:?}", e), fcase()),
                    },
                    Err(pm) => c.violation(format!("C14:v{}:{}:poll:panic:{}", f, t, panic_sig(&pm)), format!("poll decoder panicked: {}", pm), fcase()),
                }
            }
        }
        // ---- write faults (a fault "at p" strikes once p bytes have been accepted)
        if p >= enc.len() {
            continue;
        }
        for fault in kinds.iter().map(|k| WFault::Err(*k)).chain(std::iter::once(WFault::Zero)) {
            c.eval();
            let fcase = || case.clone().p("fault_pos", p).p("wfault", format!("{:?}", fault));
            let want_kind = match fault {
                WFault::Err(k) => k,
                _ => io::ErrorKind::WriteZero,
            };
            let fname = if fault == WFault::Zero { "write-zero" } else { "write-error" };
            // async encoder
            {
                let mut w = ScriptedWriter::new(&[]).with_fault(p, fault);
                w.default_accept = *r.pick(&[1usize, 3, usize::MAX]);
                match guard(|| enc_async_pub(&lib, &mut w, enc.len() * 2 + 16)) {
                    Ok(Ok(res)) => {
                        let prefix_ok = w.got.len() <= p && enc.starts_with(&w.got);
                        match res {
                            Err(e) if e.io_kind() == Some(want_kind) && prefix_ok => {}
                            other => c.violation(
                                format!("C14:v{}:{}:encode_async:{}", f, t, fname),
                                format!("{:?} after {} bytes: encode_async returned {:?}; sink holds {} bytes (prefix of the encoding: {})", fault, p, other, w.got.len(), prefix_ok),
                                fcase(),
                            ),
                        }
                    }
                    Ok(Err(e)) => c.violation(format!("C14:v{}:{}:encode_async:stuck", f, t), format!("{:?}", e), fcase()),
                    Err(pm) => c.violation(format!("C14:v{}:{}:encode_async:panic:{}", f, t, panic_sig(&pm)), format!("encode_async panicked: {}", pm), fcase()),
                }
            }
            // streaming body encoder into a sync sink
            if p < enc.len() - hdr {
                let mut w = ScriptedWriter::new(&[]).with_fault(p, fault);
                w.default_accept = *r.pick(&[1usize, 2, usize::MAX]);
                match guard(|| body_stream(&lib, &mut w)) {
                    Ok(None) => {}
                    Ok(Some(res)) => {
                        let prefix_ok = w.got.len() <= p && enc[hdr..].starts_with(&w.got);
                        match res {
                            Err(e) if e.kind() == want_kind && prefix_ok => {}
                            other => c.violation(
                                format!("C14:v{}:{}:stream:{}", f, t, fname),
                                format!("{:?} after {} body bytes: Encodable::encode returned {:?}; sink holds {} bytes (prefix: {})", fault, p, other.map_err(|e| e.kind()), w.got.len(), prefix_ok),
                                fcase(),
                            ),
                        }
                    }
                    Err(pm) => c.violation(format!("C14:v{}:{}:stream:panic:{}", f, t, panic_sig(&pm)), format!("body encoder panicked: {}", pm), fcase()),
                }
            }
        }
        // a single transient Interrupted on the asynchronous sink (round 9+3, `seeded/S05`): surfaced as an
        // I/O error of that kind after a prefix (what tokio's write_all does), or retried to completion
        // with exactly the correct bytes — never success or failure with re-sent bytes in the sink
        {
            c.eval();
            let mut w = ScriptedWriter::new(&[]).with_fault(p, WFault::InterruptedOnce);
            w.default_accept = *r.pick(&[1usize, 3, usize::MAX]);
            match guard(|| enc_async_pub(&lib, &mut w, enc.len() * 2 + 16)) {
                Ok(Ok(Ok(_))) if w.got == enc => {
                    c.count("async-interrupted-retried");
                }
                Ok(Ok(Err(e))) if e.io_kind() == Some(io::ErrorKind::Interrupted) && w.got.len() <= p && enc.starts_with(&w.got) => {
                    c.count("async-interrupted-surfaced");
                }
                Ok(Ok(other)) => c.violation(
                    format!("C14:v{}:{}:encode_async:interrupted", f, t),
                    format!("one transient Interrupted after {} bytes: encode_async returned {:?}; sink holds {} bytes, encoding has {} (prefix: {})", p, other, w.got.len(), enc.len(), enc.starts_with(&w.got)),
                    case.clone().p("fault_pos", p).p("wfault", "InterruptedOnce"),
                ),
                Ok(Err(e)) => c.violation(format!("C14:v{}:{}:encode_async:stuck", f, t), format!("{:?}", e), case.clone().p("fault_pos", p).p("wfault", "InterruptedOnce")),
                Err(pm) => c.violation(format!("C14:v{}:{}:encode_async:panic:{}", f, t, panic_sig(&pm)), format!("encode_async panicked: {}", pm), case.clone().p("fault_pos", p).p("wfault", "InterruptedOnce")),
            }
        }
        // a single transient Interrupted on a synchronous sink: either retried to completion (what
        // std::io::Write::write_all does) or surfaced as an I/O error of that kind after a prefix
        if p < enc.len() - hdr {
            c.eval();
            let mut w = ScriptedWriter::new(&[]).with_fault(p, WFault::InterruptedOnce);
            match guard(|| body_stream(&lib, &mut w)) {
                Ok(None) => {}
                Ok(Some(Ok(()))) if w.got == enc[hdr..] => {
                    c.count("interrupted-retried");
                }
                Ok(Some(Err(e))) if e.kind() == io::ErrorKind::Interrupted && w.got.len() <= p && enc[hdr..].starts_with(&w.got) => {
                    c.count("interrupted-surfaced");
                }
                other => c.violation(
                    format!("C14:v{}:{}:stream:interrupted", f, t),
                    format!("one transient Interrupted after {} body bytes: result {:?}, sink holds {} of {} bytes", p, other.map(|o| o.map(|r| r.map_err(|e| e.kind()))), w.got.len(), enc.len() - hdr),
                    case.clone().p("fault_pos", p).p("wfault", "InterruptedOnce"),
                ),
            }
        }
    }
}

/// Conversions between the codec's error types and std::io::Error.
fn c14_conversions(c: &mut Ctx) {
    use mqtt_proto::v5::ErrorV5;
    use mqtt_proto::Error;
    let all_kinds = [
        io::ErrorKind::NotFound,
        io::ErrorKind::PermissionDenied,
        io::ErrorKind::ConnectionRefused,
        io::ErrorKind::ConnectionReset,
        io::ErrorKind::ConnectionAborted,
        io::ErrorKind::NotConnected,
        io::ErrorKind::AddrInUse,
        io::ErrorKind::BrokenPipe,
        io::ErrorKind::AlreadyExists,
        io::ErrorKind::WouldBlock,
        io::ErrorKind::InvalidInput,
        io::ErrorKind::InvalidData,
        io::ErrorKind::TimedOut,
        io::ErrorKind::WriteZero,
        io::ErrorKind::Interrupted,
        io::ErrorKind::Unsupported,
        io::ErrorKind::UnexpectedEof,
        io::ErrorKind::OutOfMemory,
        io::ErrorKind::Other,
    ];
    for k in all_kinds {
        c.eval();
        c.distinct_direct += 1;
        let case = || Case::new("conversion", 0, &[]).p("kind", format!("{:?}", k));
        let e: Error = io::Error::new(k, "x").into();
        if !matches!(&e, Error::IoError(k2, _) if *k2 == k) {
            c.violation("C14:conv:io->Error", format!("Error::from(io {:?}) = {:?}", k, e), case());
        }
        if e.is_eof() != (k == io::ErrorKind::UnexpectedEof) {
            c.violation("C14:conv:is_eof", format!("is_eof() of IoError({:?}) = {}", k, e.is_eof()), case());
        }
        let back: io::Error = e.into();
        if back.kind() != k {
            c.violation("C14:conv:Error->io", format!("io::Error::from(Error::IoError({:?})) has kind {:?}", k, back.kind()), case());
        }
        let e5: ErrorV5 = io::Error::new(k, "x").into();
        if !matches!(&e5, ErrorV5::Common(Error::IoError(k2, _)) if *k2 == k) {
            c.violation("C14:conv:io->ErrorV5", format!("ErrorV5::from(io {:?}) = {:?}", k, e5), case());
        }
        if e5.is_eof() != (k == io::ErrorKind::UnexpectedEof) {
            c.violation("C14:conv:is_eof-v5", format!("ErrorV5::is_eof() of IoError({:?}) = {}", k, e5.is_eof()), case());
        }
    }
    let protocol_errors: Vec<Error> = vec![
        Error::InvalidRemainingLength,
        Error::EmptySubscription,
        Error::ZeroPid,
        Error::InvalidQos(3),
        Error::InvalidConnectFlags(1),
        Error::InvalidConnackFlags(2),
        Error::InvalidConnectReturnCode(9),
        Error::InvalidProtocol("x".into(), 1),
        Error::UnexpectedProtocol(mqtt_proto::Protocol::V500),
        Error::InvalidHeader,
        Error::InvalidVarByteInt,
        Error::InvalidTopicName("+".into()),
        Error::InvalidTopicFilter("a#".into()),
        Error::InvalidString,
    ];
    for e in protocol_errors {
        c.eval();
        c.distinct_direct += 1;
        let d = format!("{:?}", e);
        if e.is_eof() {
            c.violation("C14:conv:is_eof-protocol", format!("{} claims to be EOF", d), Case::new("conversion", 0, &[]).p("error", d.clone()));
        }
        let io_e: io::Error = e.into();
        if io_e.kind() != io::ErrorKind::InvalidData {
            c.violation("C14:conv:protocol->io", format!("io::Error::from({}) has kind {:?}, expected InvalidData", d, io_e.kind()), Case::new("conversion", 0, &[]).p("error", d));
        }
    }
    c.count("conversions-checked");
}

pub fn c14(ctx: &mut Ctx, layer: &str) {
    let mut sz = crate::mon::valid::sizes(ctx, layer);
    match layer {
        "miri" => {
            sz.g1 = if ctx.thorough { 200 } else { 16 };
            sz.g3 = vec![];
            sz.g3p = vec![];
        }
        "vg" => {
            sz.g1 = 60;
            sz.g3 = vec![];
            sz.g3p = vec![];
        }
        _ => {
            sz.g1 = if ctx.thorough { 400_000 } else { 8_000 };
            sz.g2_cap = if ctx.thorough { 512 } else { 48 };
            sz.g3 = vec![127, 128, 16_383, 16_384];
            sz.g3p = vec![127, 128];
        }
    }
    crate::mon::valid::for_valid(ctx, &sz, c14_packet);
    c14_conversions(ctx);
}

pub fn replay(ctx: &mut Ctx, case: &Case) {
    let fam = Fam::from_n(case.fam);
    let mut r = Rng::new(ctx.seed);
    match ctx.prop {
        "C05" => {
            let sched = wl::schedule_parse(case.get("schedule").unwrap_or(""));
            let mode = if case.get("mode") == Some("keep") { PollMode::Keep } else { PollMode::Recreate };
            match baseline(fam, &case.bytes) {
                Ok(base) => {
                    c05_run(ctx, fam, &case.bytes, &base, &sched, mode);
                    if let Some(at) = case.get_u64("clone_at") {
                        let budget = case.bytes.len() * 2 + sched.len() * 2 + 16;
                        if let Ok((_, Some(Drive::Done(res)))) = guard(|| drive_poll_clone_resume(fam, &case.bytes, &sched, at as usize, budget)) {
                            if res != base.0 {
                                ctx.violation(format!("C05:v{}:clone-resume-differs:{}", fam.n(), r0_class(&base.0)), "clone-resume differs".to_string(), case.clone());
                            }
                        }
                    }
                }
                Err(e) => ctx.violation(format!("C05:v{}:baseline", fam.n()), e, case.clone()),
            }
        }
        "C07" | "C14" => match crate::mon::valid::case_to_rp(case) {
            Some((fam, rp)) => {
                if ctx.prop == "C07" {
                    c07_packet(ctx, &mut r, fam, &rp, case)
                } else {
                    c14_packet(ctx, &mut r, fam, &rp, case)
                }
            }
            None => {
                if case.kind == "conversion" {
                    c14_conversions(ctx)
                } else {
                    ctx.harness_error("replay file does not hold a decodable valid packet")
                }
            }
        },
        "C08" => {
            // re-split the stream with the reference decoder and re-run
            let mut seq = Vec::new();
            let mut off = 0;
            while off < case.bytes.len() {
                match split_frame(&case.bytes[off..]) {
                    Split::Frame { remlen, hdr, .. } => {
                        let end = off + hdr + remlen as usize;
                        match crate::refdec::ref_decode(fam, &case.bytes[off..end]) {
                            Some(RefOut::Accept(p, _)) => seq.push(p),
                            _ => break,
                        }
                        off = end;
                    }
                    _ => break,
                }
            }
            c08_sequence(ctx, &mut r, fam, &seq);
        }
        _ => {}
    }
}

//! Monitors driven by valid packet values: C01 (round trip), C02 (lengths), C09 (encoder entry
//! points agree), C10 (conformance per the reference decoder).

use std::sync::Arc;

use bytes::Bytes;
use mqtt_proto::{v3, v5, Encodable};

use crate::ev::{guard, hex_short, panic_sig, Case, Ctx};
use crate::fe::*;
use crate::gen;
use crate::io::{run, ScriptedReader, ScriptedWriter, WStep};
use crate::refdec::{ref_decode, split_frame, Split};
use crate::refenc::ref_bytes;
use crate::refm::*;
use crate::rng::{fnv_bytes, Rng};
use crate::wl;

#[derive(Clone)]
pub struct Sizes {
    pub g1: usize,
    pub g2_cap: u32,
    pub g3: Vec<usize>,
    /// property-section sizes (v5): the section's own length prefix on a width boundary
    pub g3p: Vec<usize>,
    /// dense size sweep: a packet of *every* remaining length 8..=dense.0 (and every `dense.2`-th up
    /// to dense.1), and a v5 property section of every size 5..=dense.3 — whatever internal block,
    /// chunk or staging-buffer size an implementation has below that bound is crossed exactly
    pub dense: (usize, usize, usize, usize),
}

pub fn sizes(ctx: &Ctx, layer: &str) -> Sizes {
    let b = [128usize, 16_384, 2_097_152];
    let mut g3 = Vec::new();
    for x in b {
        g3.extend_from_slice(&[x - 1, x, x + 1]);
    }
    // well inside the 4-byte length class, not a multiple of any power-of-two block size
    g3.extend_from_slice(&[2_200_003, 4_194_305]);
    // 131,075 = one user property with a 65,535-byte name AND a 65,535-byte value (both fields maximal at once)
    let mut g3p = vec![127usize, 128, 129, 130, 16_383, 16_384, 16_385, 16_386, 16_387, 131_072, 131_074, 131_075, 131_080];
    if ctx.thorough {
        g3p.extend_from_slice(&[2_097_151, 2_097_152, 2_097_153, 2_097_155, 2_097_156]);
    }
    match layer {
        "miri" => Sizes { g1: if ctx.thorough { 4000 } else { 160 }, g2_cap: 2, g3: vec![127, 128], g3p: vec![127, 128, 129], dense: (0, 0, 1, 0) },
        "vg" => Sizes { g1: if ctx.thorough { 60_000 } else { 8000 }, g2_cap: if ctx.thorough { 64 } else { 16 }, g3: vec![127, 128, 129, 16_383, 16_384, 16_385, 2_097_152], g3p: vec![127, 128, 129, 16_384], dense: (0, 0, 1, 0) },
        "asan" => Sizes { g1: if ctx.thorough { 400_000 } else { 20_000 }, g2_cap: 64, g3, g3p, dense: (0, 0, 1, 0) },
        _ => Sizes { g1: if ctx.thorough { 15_000_000 } else { 300_000 }, g2_cap: if ctx.thorough { u32::MAX } else { 4096 }, g3, g3p, dense: (0, 0, 1, 0) },
    }
}

pub fn valid_case(fam: Fam, rp: &RP) -> Case {
    Case::new("valid", fam.n(), &ref_bytes(fam, rp))
}

pub fn case_to_rp(c: &Case) -> Option<(Fam, RP)> {
    let fam = Fam::from_n(c.fam);
    if let Some(t) = c.get_u64("sized") {
        let shape = c.get_u64("shape").unwrap_or(0) as u8;
        let mut r = Rng::new(c.get_u64("seed").unwrap_or(1));
        return Some((fam, gen::gen_sized(&mut r, fam, t as usize, shape)));
    }
    match ref_decode(fam, &c.bytes)? {
        RefOut::Accept(p, _) => Some((fam, p)),
        _ => None,
    }
}

/// Packet values built through the crate's public convenience constructors (`new`, `new_success`,
/// `new_normal`, `From` impls): their defaults are part of the public surface too.
pub fn constructor_values(fam: Fam) -> Vec<RP> {
    use mqtt_proto::{Pid, QoS, QosPid, TopicFilter, TopicName};
    let pid = Pid::try_from(10).unwrap();
    let tn = |s: &str| TopicName::try_from(s.to_string()).unwrap();
    let tf = |s: &str| TopicFilter::try_from(s.to_string()).unwrap();
    let cid = Arc::new("client".to_string());
    match fam {
        Fam::V3 => {
            use v3::*;
            let mut c = Connect::new(cid, 30);
            c.last_will = Some(LastWill::new(QoS::Level1, tn("w"), Bytes::from_static(b"bye")));
            let q = QosPid::Level2(pid);
            assert!(q.pid() == Some(pid) && q.qos() == QoS::Level2 && QosPid::Level0.pid().is_none());
            vec![
                Packet::from(c),
                Packet::from(Connack::new(true, ConnectReturnCode::Accepted)),
                Packet::from(Publish::new(q, tn("a/b"), Bytes::from_static(b"x"))),
                Packet::from(Subscribe::new(pid, vec![(tf("a/+"), QoS::Level1)])),
                Packet::from(Suback::new(pid, vec![SubscribeReturnCode::from(QoS::Level0), SubscribeReturnCode::from(QoS::Level1), SubscribeReturnCode::from(QoS::Level2), SubscribeReturnCode::Failure])),
                Packet::from(Unsubscribe::new(pid, vec![tf("#")])),
            ]
            .iter()
            .map(crate::conv::v3_from_lib)
            .collect()
        }
        Fam::V5 => {
            use v5::*;
            let mut c = Connect::new(cid, 30);
            c.last_will = Some(LastWill::new(QoS::Level1, tn("w"), Bytes::from_static(b"bye")));
            let up = vec![UserProperty { name: Arc::new("k".into()), value: Arc::new("v".into()) }];
            let mut un = Unsubscribe::new(pid, vec![tf("#")]);
            un.properties = UnsubscribeProperties::from(up);
            vec![
                Packet::from(c),
                Packet::from(Connack::new(false, ConnectReasonCode::Success)),
                Packet::from(Publish::new(QosPid::Level1(pid), tn("a/b"), Bytes::from_static(b"x"))),
                Packet::from(Puback::new(pid, PubackReasonCode::NotAuthorized)),
                Packet::from(Puback::new_success(pid)),
                Packet::from(Pubrec::new(pid, PubrecReasonCode::QuotaExceeded)),
                Packet::from(Pubrec::new_success(pid)),
                Packet::from(Pubrel::new(pid, PubrelReasonCode::PacketIdentifierNotFound)),
                Packet::from(Pubrel::new_success(pid)),
                Packet::from(Pubcomp::new(pid, PubcompReasonCode::PacketIdentifierNotFound)),
                Packet::from(Pubcomp::new_success(pid)),
                Packet::from(Subscribe::new(pid, vec![(tf("a/+"), SubscriptionOptions::new(QoS::Level2))])),
                Packet::from(Suback::new(pid, vec![SubscribeReasonCode::GrantedQoS1])),
                Packet::from(un),
                Packet::from(Unsuback::new(pid, vec![UnsubscribeReasonCode::Success])),
                Packet::from(Disconnect::new(DisconnectReasonCode::ServerBusy)),
                Packet::from(Disconnect::new_normal()),
                Packet::from(Auth::new(AuthReasonCode::ReAuthentication)),
                Packet::from(Auth::new_success()),
            ]
            .iter()
            .map(crate::conv::v5_from_lib)
            .collect()
        }
    }
}

/// Drive `f` over G2 (both families, sharded over workers), G1 and G3.
pub fn for_valid<F>(ctx: &mut Ctx, sz: &Sizes, f: F)
where
    F: Fn(&mut Ctx, &mut Rng, Fam, &RP, &Case) + Sync,
{
    let sz = sz.clone();
    wl::par(ctx, |w, n, c, r| {
        for fam in [Fam::V3, Fam::V5] {
            // G2, sharded by index; the enumeration order is the same in every worker
            let mut er = Rng::for_worker(c.seed, "G2", fam.n() as u64);
            let mut idx = 0usize;
            let mut items: Vec<RP> = Vec::new();
            gen::enum_g2(&mut er, fam, sz.g2_cap, &mut |rp| {
                if idx % n == w {
                    items.push(rp);
                }
                idx += 1;
            });
            if w == 0 {
                items.extend(constructor_values(fam));
            }
            c.countn(&format!("g2.{}", fam.n()), items.len() as u64);
            for rp in &items {
                let case = valid_case(fam, rp);
                f(c, r, fam, rp, &case);
            }
            drop(items);
            // G1
            let per = sz.g1 / n + 1;
            for _ in 0..per {
                let rp = gen::gen_any(r, fam);
                let case = valid_case(fam, &rp);
                f(c, r, fam, &rp, &case);
            }
            c.countn(&format!("g1.{}", fam.n()), per as u64);
            // G3: property-section size boundaries (v5)
            if fam == Fam::V5 {
                let ctxs = [1u8, CTX_WILL, 2, 3, 4, 5, 6, 7, 8, 9, 10, 11, 14, 15];
                for (i, t) in sz.g3p.iter().enumerate() {
                    for (j, pc) in ctxs.iter().enumerate() {
                        if (i * ctxs.len() + j) % n == w {
                            let rp = gen::gen_props_sized(r, *pc, *t);
                            let case = valid_case(fam, &rp);
                            f(c, r, fam, &rp, &case);
                            c.count(&format!("g3.propsection={}", t));
                        }
                    }
                }
            }
            // G3: size boundaries
            for (i, t) in sz.g3.iter().enumerate() {
                for shape in 0..3u8 {
                    if (i * 3 + shape as usize) % n == w {
                        let seed = r.next();
                        let mut gr = Rng::new(seed);
                        let rp = gen::gen_sized(&mut gr, fam, *t, shape);
                        let case = Case::new("valid", fam.n(), &[]).p("sized", t).p("shape", shape).p("seed", seed);
                        f(c, r, fam, &rp, &case);
                        c.count(&format!("g3.remlen={}", t));
                    }
                }
            }
            // G5: dense size sweep
            let (d0, d1, step, dp) = sz.dense;
            let mut t = 8usize;
            let mut cnt = 0u64;
            while t <= d1.max(d0) {
                if t % n == w {
                    let shape = ((t / n) % 8) as u8;
                    let seed = r.next();
                    let mut gr = Rng::new(seed);
                    let rp = gen::gen_sized(&mut gr, fam, t, shape);
                    let case = Case::new("valid", fam.n(), &[]).p("sized", t).p("shape", shape).p("seed", seed);
                    f(c, r, fam, &rp, &case);
                    cnt += 1;
                }
                t += if t < d0 { 1 } else { step.max(1) };
            }
            c.countn("g5.dense-remlen", cnt);
            if fam == Fam::V5 {
                let ctxs = [1u8, CTX_WILL, 2, 3, 4, 5, 6, 7, 8, 9, 10, 11, 14, 15];
                let mut cnt = 0u64;
                for t in 5..=dp {
                    if t % n == w {
                        let rp = gen::gen_props_sized(r, ctxs[(t / n) % ctxs.len()], t);
                        let case = valid_case(fam, &rp);
                        f(c, r, fam, &rp, &case);
                        cnt += 1;
                    }
                }
                c.countn("g5.dense-propsection", cnt);
            }
        }
        c.countn(&format!("rolling.w{:02}", w), ROLLING.with(|h| h.get()) >> 1);
    });
}

fn tname(rp: &RP) -> &'static str {
    TYPE_NAMES[rp.typ() as usize]
}

fn fp_of(fam: Fam, enc: &[u8]) -> u64 {
    fnv_bytes(fam.n() as u64, enc)
}

pub fn nontrivial(rp: &RP) -> bool {
    !matches!(rp, RP::Pingreq | RP::Pingresp)
}

// ------------------------------------------------------------------------------------------
// C01

pub fn c01_case(c: &mut Ctx, r: &mut Rng, fam: Fam, rp: &RP, case: &Case) {
    c.eval();
    let f = fam.n();
    let t = tname(rp);
    let lib = match Pkt::from_ref(fam, rp) {
        Some(l) => l,
        None => {
            c.harness_error(format!("generator produced a value outside the codec domain: {:?}", rp.typ()));
            return;
        }
    };
    let enc = match guard(|| lib.encode()) {
        Err(p) => {
            c.violation(format!("C01:v{}:{}:encode-panic:{}", f, t, panic_sig(&p)), format!("encode panicked: {}", p), case.clone());
            return;
        }
        Ok(Err(e)) => {
            c.violation(format!("C01:v{}:{}:encode-err:{}", f, t, e.class()), format!("encode of a valid packet failed: {:?}", e), case.clone());
            return;
        }
        Ok(Ok(b)) => b,
    };
    if nontrivial(rp) {
        c.distinct(fp_of(fam, &enc));
    }
    c.count(&format!("v{}.{}", f, t));
    c.sample(|| format!("v{} {} {}", f, t, hex_short(&enc)));
    let want_ref = lib.to_ref().canon();
    let cmp = |c: &mut Ctx, fe: &str, got: &Pkt| {
        if *got != lib || got.to_ref().canon() != want_ref {
            c.violation(
                format!("C01:v{}:{}:{}:mismatch", f, t, fe),
                format!("{} decoder returned a different packet: {:?} (sent {:?})", fe, short(got), short(&lib)),
                case.clone(),
            );
        }
    };
    // blocking
    match guard(|| dec_block(fam, &enc)) {
        Err(p) => c.violation(format!("C01:v{}:{}:block:panic:{}", f, t, panic_sig(&p)), format!("blocking decoder panicked: {}", p), case.clone()),
        Ok(DecOut::Pkt(p)) => cmp(c, "block", &p),
        Ok(o) => c.violation(format!("C01:v{}:{}:block:{}", f, t, o.class()), format!("blocking decoder returned {:?} for the encoding of a valid packet", o), case.clone()),
    }
    let hdr = match split_frame(&enc) {
        Split::Frame { hdr, .. } => hdr,
        _ => {
            c.violation(format!("C01:v{}:{}:frame", f, t), "encoding is not one complete frame".to_string(), case.clone());
            return;
        }
    };
    // async under a random schedule
    let sched = wl::rand_schedule(r, enc.len(), hdr);
    let scase = || case.clone().p("schedule", wl::schedule_text(&sched));
    {
        let mut rd = ScriptedReader::new(&enc, &sched);
        rd.keep_log = false;
        match guard(|| dec_async(fam, &mut rd, enc.len() * 2 + sched.len() + 16)) {
            Err(p) => c.violation(format!("C01:v{}:{}:async:panic:{}", f, t, panic_sig(&p)), format!("async decoder panicked: {}", p), scase()),
            Ok(Drive::Stuck(e)) => c.violation(format!("C01:v{}:{}:async:stuck", f, t), format!("async decoder did not complete: {:?}", e), scase()),
            Ok(Drive::Done(Ok(p))) => {
                cmp(c, "async", &p);
                if rd.pos != enc.len() {
                    c.violation(format!("C01:v{}:{}:async:consumed", f, t), format!("async decoder consumed {} of {} bytes", rd.pos, enc.len()), scase());
                }
            }
            Ok(Drive::Done(Err(e))) => c.violation(format!("C01:v{}:{}:async:{}", f, t, e.class()), format!("async decoder returned {:?}", e), scase()),
        }
    }
    // poll under a random schedule, future kept or re-created
    let mode = if r.bool() { PollMode::Keep } else { PollMode::Recreate };
    let mut rd = ScriptedReader::new(&enc, &sched);
    rd.keep_log = false;
    match guard(|| drive_poll(fam, &mut rd, mode, enc.len() * 2 + sched.len() + 16)) {
        Err(p) => c.violation(format!("C01:v{}:{}:poll:panic:{}", f, t, panic_sig(&p)), format!("poll decoder panicked: {}", p), scase()),
        Ok(run) => match run.out {
            Drive::Stuck(e) => c.violation(format!("C01:v{}:{}:poll:stuck", f, t), format!("poll decoder did not complete: {:?}", e), scase()),
            Drive::Done(Ok(ok)) => {
                cmp(c, "poll", &ok.pkt);
                if ok.total != enc.len() {
                    c.violation(format!("C01:v{}:{}:poll:total", f, t), format!("poll decoder reported total {} for {} bytes", ok.total, enc.len()), scase());
                }
                if ok.body != enc[hdr..] {
                    c.violation(format!("C01:v{}:{}:poll:body", f, t), "poll decoder's body buffer differs from the bytes after the fixed header".to_string(), scase());
                }
            }
            Drive::Done(Err(e)) => c.violation(format!("C01:v{}:{}:poll:{}", f, t, e.class()), format!("poll decoder returned {:?}", e), scase()),
        },
    }
}

pub fn short(p: &Pkt) -> String {
    // Debug-formatting a String that holds ill-formed UTF-8 (possible only if the decoder broke its
    // own invariant) can panic inside std; never let a diagnostic take the monitor down.
    let s = match guard(|| format!("{:?}", p)) {
        Ok(s) => s,
        Err(_) => format!("<{} packet whose Debug output panics: it holds an ill-formed String>", p.type_name()),
    };
    if s.len() > 300 {
        format!("{}…({} chars)", s.chars().take(280).collect::<String>(), s.len())
    } else {
        s
    }
}

/// Dense size sweep bounds per layer (see `Sizes::dense`).
pub fn dense_for(ctx: &Ctx, layer: &str) -> (usize, usize, usize, usize) {
    match layer {
        "miri" => (0, 0, 1, 0),
        "vg" => (600, 600, 1, 300),
        "asan" => (8_000, 140_000, 31, 3_000),
        _ => {
            if ctx.thorough {
                (140_000, 4_300_000, 257, 70_000)
            } else {
                (20_000, 140_000, 7, 20_000)
            }
        }
    }
}

pub fn c01(ctx: &mut Ctx, layer: &str) {
    let mut sz = sizes(ctx, layer);
    sz.dense = dense_for(ctx, layer);
    for_valid(ctx, &sz, c01_case);
    if ctx.thorough && layer == "rel" {
        giant_roundtrip(ctx);
    }
}

/// One packet with the maximal remaining length 2^28-1 per family (serial: 0.8 GiB each).
fn giant_roundtrip(ctx: &mut Ctx) {
    for fam in [Fam::V3, Fam::V5] {
        let mut r = Rng::new(ctx.seed ^ 0x6169_616e_7421);
        let t = 268_435_455usize;
        let case = Case::new("valid", fam.n(), &[]).p("sized", t).p("shape", 0).p("seed", 7);
        let mut gr = Rng::new(7);
        let rp = gen::gen_sized(&mut gr, fam, t, 0);
        c01_case(ctx, &mut r, fam, &rp, &case);
        ctx.count("g3.remlen=268435455");
    }
}

// ------------------------------------------------------------------------------------------
// C02

fn part<E: Encodable>(c: &mut Ctx, fam: u8, name: &str, x: &E, case: &Case, hash: &mut u64) -> Option<Vec<u8>> {
    c.count(&format!("part.v{}.{}", fam, name));
    match guard(|| {
        let mut v = Vec::new();
        let r = x.encode(&mut v);
        (v, r.is_ok(), x.encode_len())
    }) {
        Err(p) => {
            c.violation(format!("C02:v{}:part:{}:panic:{}", fam, name, panic_sig(&p)), format!("{}::encode/encode_len panicked: {}", name, p), case.clone());
            None
        }
        Ok((v, ok, n)) => {
            *hash = fnv_bytes(*hash ^ n as u64, &v);
            if !ok {
                c.violation(format!("C02:v{}:part:{}:err", fam, name), format!("{}::encode into a Vec failed", name), case.clone());
            }
            if v.len() != n {
                c.violation(
                    format!("C02:v{}:part:{}:len", fam, name),
                    format!("{}::encode wrote {} bytes, encode_len() = {}", name, v.len(), n),
                    case.clone(),
                );
            }
            Some(v)
        }
    }
}

/// Every separately encodable part of a packet; returns the body bytes (what follows the header).
fn parts(c: &mut Ctx, p: &Pkt, case: &Case, hash: &mut u64) -> Option<Vec<u8>> {
    match p {
        Pkt::V3(p) => match p {
            v3::Packet::Connect(x) => {
                part(c, 3, "Protocol", &x.protocol, case, hash);
                if let Some(w) = &x.last_will {
                    part(c, 3, "LastWill", w, case, hash);
                }
                part(c, 3, "Connect", x, case, hash)
            }
            v3::Packet::Publish(x) => part(c, 3, "Publish", x, case, hash),
            v3::Packet::Subscribe(x) => part(c, 3, "Subscribe", x, case, hash),
            v3::Packet::Suback(x) => part(c, 3, "Suback", x, case, hash),
            v3::Packet::Unsubscribe(x) => part(c, 3, "Unsubscribe", x, case, hash),
            _ => None,
        },
        Pkt::V5(p) => match p {
            v5::Packet::Connect(x) => {
                part(c, 5, "Protocol", &x.protocol, case, hash);
                part(c, 5, "ConnectProperties", &x.properties, case, hash);
                if let Some(w) = &x.last_will {
                    part(c, 5, "WillProperties", &w.properties, case, hash);
                    part(c, 5, "LastWill", w, case, hash);
                }
                part(c, 5, "Connect", x, case, hash)
            }
            v5::Packet::Connack(x) => {
                part(c, 5, "ConnackProperties", &x.properties, case, hash);
                part(c, 5, "Connack", x, case, hash)
            }
            v5::Packet::Publish(x) => {
                part(c, 5, "PublishProperties", &x.properties, case, hash);
                part(c, 5, "Publish", x, case, hash)
            }
            v5::Packet::Puback(x) => {
                part(c, 5, "PubackProperties", &x.properties, case, hash);
                part(c, 5, "Puback", x, case, hash)
            }
            v5::Packet::Pubrec(x) => {
                part(c, 5, "PubrecProperties", &x.properties, case, hash);
                part(c, 5, "Pubrec", x, case, hash)
            }
            v5::Packet::Pubrel(x) => {
                part(c, 5, "PubrelProperties", &x.properties, case, hash);
                part(c, 5, "Pubrel", x, case, hash)
            }
            v5::Packet::Pubcomp(x) => {
                part(c, 5, "PubcompProperties", &x.properties, case, hash);
                part(c, 5, "Pubcomp", x, case, hash)
            }
            v5::Packet::Subscribe(x) => {
                part(c, 5, "SubscribeProperties", &x.properties, case, hash);
                part(c, 5, "Subscribe", x, case, hash)
            }
            v5::Packet::Suback(x) => {
                part(c, 5, "SubackProperties", &x.properties, case, hash);
                part(c, 5, "Suback", x, case, hash)
            }
            v5::Packet::Unsubscribe(x) => {
                part(c, 5, "UnsubscribeProperties", &x.properties, case, hash);
                part(c, 5, "Unsubscribe", x, case, hash)
            }
            v5::Packet::Unsuback(x) => {
                part(c, 5, "UnsubackProperties", &x.properties, case, hash);
                part(c, 5, "Unsuback", x, case, hash)
            }
            v5::Packet::Disconnect(x) => {
                part(c, 5, "DisconnectProperties", &x.properties, case, hash);
                part(c, 5, "Disconnect", x, case, hash)
            }
            v5::Packet::Auth(x) => {
                part(c, 5, "AuthProperties", &x.properties, case, hash);
                part(c, 5, "Auth", x, case, hash)
            }
            v5::Packet::Pingreq | v5::Packet::Pingresp => None,
        },
    }
}

thread_local! {
    pub static ROLLING: std::cell::Cell<u64> = const { std::cell::Cell::new(0) };
}

pub fn c02_lib_case(c: &mut Ctx, lib: &Pkt, case: &Case) {
    c.eval();
    let f = lib.fam().n();
    let t = lib.type_name();
    let mut hash = ROLLING.with(|h| h.get());
    let len = guard(|| lib.encode_len());
    let enc = guard(|| lib.encode());
    match (&len, &enc) {
        (Err(p), _) => c.violation(format!("C02:v{}:{}:encode_len-panic:{}", f, t, panic_sig(p)), format!("encode_len panicked: {}", p), case.clone()),
        (_, Err(p)) => c.violation(format!("C02:v{}:{}:encode-panic:{}", f, t, panic_sig(p)), format!("encode panicked: {}", p), case.clone()),
        (Ok(len), Ok(enc)) => {
            match (len, enc) {
                (Ok(n), Ok(b)) => {
                    hash = fnv_bytes(hash ^ *n as u64, b);
                    c.distinct(fnv_bytes(f as u64, b));
                    c.sample(|| format!("v{} {} encode_len={} bytes={}", f, t, n, hex_short(b)));
                    if b.len() != *n {
                        c.violation(format!("C02:v{}:{}:len", f, t), format!("encode wrote {} bytes, encode_len() = {}", b.len(), n), case.clone());
                    }
                    match split_frame(b) {
                        Split::Frame { remlen, hdr, minimal, .. } => {
                            if hdr + remlen as usize != b.len() {
                                c.violation(
                                    format!("C02:v{}:{}:remlen-field", f, t),
                                    format!("remaining-length field says {} but {} bytes follow the header", remlen, b.len() - hdr),
                                    case.clone(),
                                );
                            }
                            if !minimal {
                                // C02 is about lengths agreeing, not about minimality (that is C10's): observed only
                                c.count("observed.remlen-nonminimal");
                            }
                            c.count(&format!("hdrlen.{}", hdr));
                            if let Some(body) = parts(c, lib, case, &mut hash) {
                                if body != b[hdr..] {
                                    c.violation(
                                        format!("C02:v{}:{}:body-vs-packet", f, t),
                                        "body streamed by Encodable::encode differs from the packet encoding after the header".to_string(),
                                        case.clone(),
                                    );
                                }
                            }
                        }
                        _ => c.violation(format!("C02:v{}:{}:frame", f, t), "encoding is not one complete frame (declared length exceeds the bytes written)".to_string(), case.clone()),
                    }
                }
                (a, b) => {
                    c.violation(
                        format!("C02:v{}:{}:valid-refused", f, t),
                        format!("valid packet refused: encode_len={:?} encode={:?}", a.as_ref().map(|_| ()), b.as_ref().map(|v| v.len())),
                        case.clone(),
                    );
                }
            }
        }
    }
    ROLLING.with(|h| h.set(hash));
}

pub fn c02_case(c: &mut Ctx, _r: &mut Rng, fam: Fam, rp: &RP, case: &Case) {
    match Pkt::from_ref(fam, rp) {
        Some(lib) => c02_lib_case(c, &lib, case),
        None => c.harness_error("generator produced a value outside the codec domain"),
    }
}

/// Packets whose remaining length is >= 2^28 must be refused with an error by encode and
/// encode_len — neither emitted nor a panic. Built directly as crate values (sharing buffers).
pub fn oversize_packets(kind: usize, extra: usize) -> Option<(Pkt, String)> {
    let big = |n: usize| Bytes::from(vec![0u8; n]);
    let t = |s: &str| mqtt_proto::TopicName::try_from(s.to_string()).unwrap();
    // remaining length target = 2^28 + extra
    let target = 268_435_456usize + extra;
    Some(match kind {
        0 => (
            Pkt::V3(v3::Packet::Publish(v3::Publish::new(mqtt_proto::QosPid::Level0, t("t"), big(target - 3)))),
            format!("v3 PUBLISH payload remlen=2^28+{}", extra),
        ),
        1 => (
            Pkt::V5(v5::Packet::Publish(v5::Publish::new(mqtt_proto::QosPid::Level0, t("t"), big(target - 4)))),
            format!("v5 PUBLISH payload remlen=2^28+{}", extra),
        ),
        2 => {
            // v3 SUBACK with that many codes
            let topics = vec![v3::SubscribeReturnCode::MaxLevel1; target - 2];
            (
                Pkt::V3(v3::Packet::Suback(v3::Suback::new(mqtt_proto::Pid::default(), topics))),
                format!("v3 SUBACK codes remlen=2^28+{}", extra),
            )
        }
        3 | 4 | 5 | 6 => {
            // v5: property section alone >= 2^28: n user properties of 2 x 65535 bytes sharing two Arcs
            let s = Arc::new("k".repeat(65_535));
            let up = v5::UserProperty { name: s.clone(), value: s.clone() };
            let per = 1 + 4 + 2 * 65_535;
            let n = target / per + 1;
            let ups = vec![up; n];
            match kind {
                3 => {
                    let mut p = v5::Publish::new(mqtt_proto::QosPid::Level0, t("t"), Bytes::new());
                    p.properties.user_properties = ups;
                    (Pkt::V5(v5::Packet::Publish(p)), format!("v5 PUBLISH with {} user properties (property section >= 2^28)", n))
                }
                4 => {
                    let mut p = v5::Connack::new(false, v5::ConnectReasonCode::Success);
                    p.properties.user_properties = ups;
                    (Pkt::V5(v5::Packet::Connack(p)), format!("v5 CONNACK with {} user properties (property section >= 2^28)", n))
                }
                5 => {
                    let mut p = v5::Unsubscribe::new(mqtt_proto::Pid::default(), vec![mqtt_proto::TopicFilter::try_from("a".to_string()).unwrap()]);
                    p.properties.user_properties = ups;
                    (Pkt::V5(v5::Packet::Unsubscribe(p)), format!("v5 UNSUBSCRIBE with {} user properties (property section >= 2^28)", n))
                }
                _ => {
                    let mut p = v5::Disconnect::new_normal();
                    p.properties.user_properties = ups;
                    (Pkt::V5(v5::Packet::Disconnect(p)), format!("v5 DISCONNECT with {} user properties (property section >= 2^28)", n))
                }
            }
        }
        7 => {
            // v3 CONNECT: password + will message together cross the limit
            let mut cn = v3::Connect::new(Arc::new("c".to_string()), 10);
            cn.password = Some(big(65_535));
            cn.username = Some(Arc::new("u".repeat(65_535)));
            cn.last_will = Some(v3::LastWill::new(mqtt_proto::QoS::Level0, t("w"), big(65_535)));
            // a CONNECT cannot reach 2^28 with 16-bit fields: this is a *valid* big CONNECT (control case)
            (Pkt::V3(v3::Packet::Connect(cn)), "v3 CONNECT with three 65535-byte fields (valid, control case)".to_string())
        }
        _ => return None,
    })
}

pub fn c02_oversize(ctx: &mut Ctx) {
    for extra in [0usize, 1, 65_536] {
        for kind in 0..8 {
            let (p, desc) = match oversize_packets(kind, extra) {
                Some(x) => x,
                None => continue,
            };
            let case = Case::new("oversize", p.fam().n(), &[]).p("kind", kind).p("extra", extra);
            ctx.eval();
            ctx.count(&format!("oversize.kind{}", kind));
            if kind == 7 {
                c02_lib_case(ctx, &p, &case);
                continue;
            }
            ctx.distinct(fnv_bytes(kind as u64, &extra.to_le_bytes()));
            ctx.sample(|| format!("oversize: {}", desc));
            let is_props = (3..=6).contains(&kind);
            let shape = if is_props { "props-section>=2^28" } else { "remlen>=2^28" };
            for (name, res) in [
                ("encode_len", guard(|| p.encode_len().map(|_| ()))),
                ("encode", guard(|| p.encode().map(|v| { let _ = v.len(); }))),
            ] {
                match res {
                    Err(pm) => ctx.violation(
                        format!("C02:v{}:{}:{}-panics", p.fam().n(), shape, name),
                        format!("{}: {} panicked instead of returning an error: {}", desc, name, pm),
                        case.clone(),
                    ),
                    Ok(Ok(())) => ctx.violation(
                        format!("C02:v{}:{}:{}-ok", p.fam().n(), shape, name),
                        format!("{}: {} returned Ok for a packet too large for the 4-byte remaining length", desc, name),
                        case.clone(),
                    ),
                    Ok(Err(e)) => {
                        if e.to_ref() != Some(RefErr::VarInt) {
                            ctx.violation(
                                format!("C02:v{}:{}:{}-wrong-error", p.fam().n(), shape, name),
                                format!("{}: {} returned {:?}, expected InvalidVarByteInt", desc, name, e),
                                case.clone(),
                            );
                        } else {
                            ctx.count("oversize.refused");
                        }
                    }
                }
            }
        }
    }
}

pub fn c02(ctx: &mut Ctx, layer: &str) {
    let mut sz = sizes(ctx, layer);
    sz.dense = dense_for(ctx, layer);
    for_valid(ctx, &sz, c02_case);
    if layer != "miri" && layer != "vg" {
        c02_oversize(ctx);
    }
    if ctx.thorough && layer == "rel" {
        // the largest legal packet must still encode, with a 4-byte length field
        for fam in [Fam::V3, Fam::V5] {
            let mut gr = Rng::new(7);
            let rp = gen::gen_sized(&mut gr, fam, 268_435_455, 0);
            let case = Case::new("valid", fam.n(), &[]).p("sized", 268_435_455u64).p("shape", 0).p("seed", 7);
            let mut r = Rng::new(1);
            c02_case(ctx, &mut r, fam, &rp, &case);
            ctx.count("g3.remlen=268435455");
        }
    }
}

// ------------------------------------------------------------------------------------------
// C09

fn enc_async(p: &Pkt, w: &mut ScriptedWriter, budget: usize) -> Result<Result<(), Er>, crate::io::RunErr> {
    match p {
        Pkt::V3(p) => run(p.encode_async(w), budget).map(|(r, _)| r.map_err(Er::V3)),
        Pkt::V5(p) => run(p.encode_async(w), budget).map(|(r, _)| r.map_err(Er::V5)),
    }
}

pub fn enc_async_pub(p: &Pkt, w: &mut ScriptedWriter, budget: usize) -> Result<Result<(), Er>, crate::io::RunErr> {
    enc_async(p, w, budget)
}

/// stream the packet *body* into a scripted sync sink
pub fn body_stream(p: &Pkt, w: &mut ScriptedWriter) -> Option<std::io::Result<()>> {
    Some(match p {
        Pkt::V3(p) => match p {
            v3::Packet::Connect(x) => x.encode(w),
            v3::Packet::Publish(x) => x.encode(w),
            v3::Packet::Subscribe(x) => x.encode(w),
            v3::Packet::Suback(x) => x.encode(w),
            v3::Packet::Unsubscribe(x) => x.encode(w),
            _ => return None,
        },
        Pkt::V5(p) => match p {
            v5::Packet::Connect(x) => x.encode(w),
            v5::Packet::Connack(x) => x.encode(w),
            v5::Packet::Publish(x) => x.encode(w),
            v5::Packet::Puback(x) => x.encode(w),
            v5::Packet::Pubrec(x) => x.encode(w),
            v5::Packet::Pubrel(x) => x.encode(w),
            v5::Packet::Pubcomp(x) => x.encode(w),
            v5::Packet::Subscribe(x) => x.encode(w),
            v5::Packet::Suback(x) => x.encode(w),
            v5::Packet::Unsubscribe(x) => x.encode(w),
            v5::Packet::Unsuback(x) => x.encode(w),
            v5::Packet::Disconnect(x) => x.encode(w),
            v5::Packet::Auth(x) => x.encode(w),
            v5::Packet::Pingreq | v5::Packet::Pingresp => return None,
        },
    })
}

pub fn c09_case(c: &mut Ctx, r: &mut Rng, fam: Fam, rp: &RP, case: &Case) {
    c.eval();
    let f = fam.n();
    let t = tname(rp);
    let lib = match Pkt::from_ref(fam, rp) {
        Some(l) => l,
        None => {
            c.harness_error("generator produced a value outside the codec domain");
            return;
        }
    };
    let enc = match guard(|| lib.encode()) {
        Ok(Ok(b)) => b,
        other => {
            // C01/C02 report encode failures; here there is nothing to compare
            c.inconclusive(format!("encode failed for a valid packet: {:?}", other.map(|r| r.map(|b| b.len()))));
            return;
        }
    };
    if nontrivial(rp) {
        c.distinct(fp_of(fam, &enc));
    }
    c.count(&format!("v{}.{}", f, t));
    // repeated invocation
    match guard(|| lib.encode()) {
        Ok(Ok(b2)) if b2 == enc => {}
        _ => c.violation(format!("C09:v{}:{}:repeat", f, t), "second encode() differs from the first".to_string(), case.clone()),
    }
    // async encoder under write schedules
    let scheds: Vec<Vec<WStep>> = if enc.len() <= 4 {
        // exhaustive: all compositions of the length, each optionally preceded by a Pending
        let mut all = Vec::new();
        let n = enc.len();
        for cuts in 0..(1u32 << (n - 1)) {
            for pend in 0..(1u32 << n) {
                let mut s = Vec::new();
                let mut run_len = 1;
                let mut k = 0;
                for i in 0..n {
                    let last = i == n - 1;
                    if last || cuts & (1 << i) != 0 {
                        if pend & (1 << k) != 0 {
                            s.push(WStep::Pending);
                        }
                        s.push(WStep::Accept(run_len));
                        run_len = 1;
                        k += 1;
                    } else {
                        run_len += 1;
                    }
                }
                all.push(s);
            }
        }
        all
    } else {
        vec![vec![], vec![WStep::Pending], wl::rand_wschedule(r, enc.len()), {
            let mut s = Vec::new();
            if enc.len() <= 4096 {
                for _ in 0..enc.len() {
                    s.push(WStep::Accept(1));
                }
            }
            s
        }]
    };
    // every schedule against a plain sink and against a gathering one (is_write_vectored() = true,
    // vectored writes spend their byte budget across the slices offered, as writev on a socket does)
    for (s, gather) in scheds.iter().flat_map(|s| [(s, false), (s, true)]) {
        c.count(if gather { "async.schedules.gathering-sink" } else { "async.schedules" });
        let mut w = ScriptedWriter::new(s);
        if gather {
            w = w.gathering();
        }
        let res = guard(|| enc_async(&lib, &mut w, enc.len() * 2 + s.len() + 16));
        if w.vectored_writes > 0 {
            c.count("async.vectored-writes-seen");
        }
        let scase = || case.clone().p("wschedule", wl::wschedule_text(s)).p("gathering", gather as u64);
        match res {
            Err(p) => c.violation(format!("C09:v{}:{}:async:panic:{}", f, t, panic_sig(&p)), format!("encode_async panicked: {}", p), scase()),
            Ok(Err(e)) => c.violation(format!("C09:v{}:{}:async:stuck", f, t), format!("encode_async did not complete: {:?} (Pending swallowed or invented)", e), scase()),
            Ok(Ok(Err(e))) => c.violation(format!("C09:v{}:{}:async:err", f, t), format!("encode_async failed on a healthy sink: {:?}", e), scase()),
            Ok(Ok(Ok(()))) => {
                if w.got != enc {
                    c.violation(
                        format!("C09:v{}:{}:async:bytes", f, t),
                        format!("sink received {} bytes, encode() gives {} ({}…)", w.got.len(), enc.len(), hex_short(&w.got)),
                        scase(),
                    );
                }
            }
        }
    }
    // a retransmission right after the original: the same PUBLISH value with DUP set and (v5) a lowered
    // Message Expiry Interval / a toggled Topic Alias, sharing the original's payload and topic handles —
    // whatever an encoder remembers from the previous call (thread-locals, caches keyed by buffer
    // identity) must not leak into this one
    {
        let resend: Option<Pkt> = match &lib {
            Pkt::V3(v3::Packet::Publish(p)) if p.qos_pid != mqtt_proto::QosPid::Level0 => {
                let mut q = p.clone();
                q.dup = true;
                Some(Pkt::V3(v3::Packet::Publish(q)))
            }
            Pkt::V5(v5::Packet::Publish(p)) if p.qos_pid != mqtt_proto::QosPid::Level0 => {
                let mut q = p.clone();
                q.dup = true;
                q.properties.message_expiry_interval = Some(q.properties.message_expiry_interval.map(|x| x / 2 + 1).unwrap_or(77));
                q.properties.topic_alias = if q.properties.topic_alias.is_some() { None } else { Some(9) };
                Some(Pkt::V5(v5::Packet::Publish(q)))
            }
            _ => None,
        };
        if let Some(b) = resend {
            c.count("async.retransmissions");
            let mut w0 = ScriptedWriter::new(&[]);
            let _ = guard(|| enc_async(&lib, &mut w0, enc.len() * 2 + 16));
            if let Ok(Ok(want)) = guard(|| b.encode()) {
                let mut w = ScriptedWriter::new(&[]);
                match guard(|| enc_async(&b, &mut w, want.len() * 2 + 16)) {
                    Ok(Ok(Ok(()))) if w.got == want => {}
                    other => c.violation(
                        format!("C09:v{}:{}:async:retransmission", f, t),
                        format!(
                            "encode_async of a retransmission (DUP set, properties changed) right after the original: sink got {} bytes, encode() gives {} ({:?})",
                            w.got.len(),
                            want.len(),
                            other.map(|r| r.map(|x| x.is_ok()))
                        ),
                        case.clone().p("retransmission", 1),
                    ),
                }
            }
        }
    }
    // packet = header ++ streamed body, for sinks accepting 1, k, all bytes per write
    if let Split::Frame { hdr, .. } = split_frame(&enc) {
        for k in [1usize, 3, usize::MAX] {
            let mut w = ScriptedWriter::new(&[]);
            w.default_accept = k;
            if k == 1 && enc.len() > 70_000 {
                continue;
            }
            match guard(|| body_stream(&lib, &mut w)) {
                Err(p) => c.violation(format!("C09:v{}:{}:stream:panic:{}", f, t, panic_sig(&p)), format!("body encode panicked: {}", p), case.clone().p("accept", k)),
                Ok(None) => {}
                Ok(Some(Err(e))) => c.violation(format!("C09:v{}:{}:stream:err", f, t), format!("body encode failed on a healthy sink: {:?}", e), case.clone().p("accept", k)),
                Ok(Some(Ok(()))) => {
                    c.count("stream.sinks");
                    if w.got != enc[hdr..] {
                        c.violation(
                            format!("C09:v{}:{}:stream:bytes", f, t),
                            format!("streamed body ({} bytes, sink accepting {} per write) differs from the packet encoding after the header ({} bytes)", w.got.len(), k, enc.len() - hdr),
                            case.clone().p("accept", k),
                        );
                    }
                }
            }
        }
    }
}

pub fn c09(ctx: &mut Ctx, layer: &str) {
    let mut sz = sizes(ctx, layer);
    if !matches!(layer, "miri" | "vg") {
        sz.g1 = if ctx.thorough { 8_000_000 } else { 200_000 };
    }
    for_valid(ctx, &sz, c09_case);
}

// ------------------------------------------------------------------------------------------
// C10

pub fn c10_case(c: &mut Ctx, _r: &mut Rng, fam: Fam, rp: &RP, case: &Case) {
    c.eval();
    let f = fam.n();
    let t = tname(rp);
    let lib = match Pkt::from_ref(fam, rp) {
        Some(l) => l,
        None => {
            c.harness_error("generator produced a value outside the codec domain");
            return;
        }
    };
    let enc = match guard(|| lib.encode()) {
        Ok(Ok(b)) => b,
        other => {
            c.inconclusive(format!("encode failed for a valid packet: {:?}", other.map(|r| r.map(|b| b.len()))));
            return;
        }
    };
    if nontrivial(rp) {
        c.distinct(fp_of(fam, &enc));
    }
    c.count(&format!("v{}.{}", f, t));
    c.sample(|| format!("v{} {} {}", f, t, hex_short(&enc)));
    let want = rp.canon();
    match ref_decode(fam, &enc) {
        None => c.violation(format!("C10:v{}:{}:not-a-frame", f, t), "encoder output is not exactly one frame".to_string(), case.clone()),
        Some(RefOut::Reject(e)) => c.violation(
            format!("C10:v{}:{}:ref-reject:{}", f, t, e.class()),
            format!("the reference decoder rejects the encoder's output: {:?}; bytes {}", e, hex_short(&enc)),
            case.clone(),
        ),
        Some(RefOut::Accept(got, notes)) => {
            if notes.contains(&Note::NonMinimal) {
                c.violation(format!("C10:v{}:{}:nonminimal", f, t), "a variable byte integer is not minimally encoded".to_string(), case.clone());
            }
            if got.canon() != want {
                c.violation(
                    format!("C10:v{}:{}:fields", f, t),
                    format!("reference decoder recovers different field values from {}", hex_short(&enc)),
                    case.clone(),
                );
            }
            // what wire numbers were actually observed
            observe_numbers(c, fam, &got);
        }
    }
}

fn observe_numbers(c: &mut Ctx, fam: Fam, p: &RP) {
    let f = fam.n();
    let pr = |c: &mut Ctx, ctx: u8, ps: &Props| {
        for (id, _) in ps {
            c.count(&format!("wire.prop.ctx{}.0x{:02x}", ctx, id));
        }
    };
    match p {
        RP::Connect { level, will, props, .. } => {
            c.count(&format!("wire.level.{}", level));
            pr(c, 1, props);
            if let Some(w) = will {
                pr(c, CTX_WILL, &w.props);
            }
        }
        RP::Connack { code, props, .. } => {
            c.count(&format!("wire.code.v{}.t2.0x{:02x}", f, code));
            pr(c, 2, props);
        }
        RP::Publish { props, .. } => pr(c, 3, props),
        RP::Ack { typ, code, props, .. } => {
            c.count(&format!("wire.code.v{}.t{}.0x{:02x}", f, typ, code));
            pr(c, *typ, props);
        }
        RP::Subscribe { props, topics, .. } => {
            pr(c, 8, props);
            for (_, o) in topics {
                c.count(&format!("wire.subopt.v{}.0x{:02x}", f, o));
            }
        }
        RP::Suback { props, codes, .. } => {
            pr(c, 9, props);
            for x in codes {
                c.count(&format!("wire.code.v{}.t9.0x{:02x}", f, x));
            }
        }
        RP::Unsubscribe { props, .. } => pr(c, 10, props),
        RP::Unsuback { props, codes, .. } => {
            pr(c, 11, props);
            for x in codes {
                c.count(&format!("wire.code.v{}.t11.0x{:02x}", f, x));
            }
        }
        RP::Disconnect { code, props } => {
            c.count(&format!("wire.code.v{}.t14.0x{:02x}", f, code));
            pr(c, 14, props);
        }
        RP::Auth { code, props } => {
            c.count(&format!("wire.code.v{}.t15.0x{:02x}", f, code));
            pr(c, 15, props);
        }
        RP::Pingreq | RP::Pingresp => {}
    }
}

pub fn c10(ctx: &mut Ctx, layer: &str) {
    let sz = sizes(ctx, layer);
    for_valid(ctx, &sz, c10_case);
    if matches!(layer, "miri" | "vg") {
        return;
    }
    // every table entry must have been observed on the wire in this run
    let mut missing = Vec::new();
    for (typ, tab) in [(2u8, CONNACK_V5), (4, PUBACK_V5), (5, PUBACK_V5), (6, PUBREL_V5), (7, PUBREL_V5), (9, SUBACK_V5), (11, UNSUBACK_V5), (14, DISCONNECT_V5), (15, AUTH_V5)] {
        for code in tab {
            let k = format!("wire.code.v5.t{}.0x{:02x}", typ, code);
            if !ctx.hist.contains_key(&k) {
                missing.push(k);
            }
        }
    }
    for code in CONNACK_V3 {
        let k = format!("wire.code.v3.t2.0x{:02x}", code);
        if !ctx.hist.contains_key(&k) {
            missing.push(k);
        }
    }
    for code in SUBACK_V3 {
        let k = format!("wire.code.v3.t9.0x{:02x}", code);
        if !ctx.hist.contains_key(&k) {
            missing.push(k);
        }
    }
    for ps in PROP_TABLE {
        for ctxn in ps.allowed {
            let k = format!("wire.prop.ctx{}.0x{:02x}", ctxn, ps.id);
            if !ctx.hist.contains_key(&k) {
                missing.push(k);
            }
        }
    }
    for l in [3, 4, 5] {
        let k = format!("wire.level.{}", l);
        if !ctx.hist.contains_key(&k) {
            missing.push(k);
        }
    }
    if !missing.is_empty() {
        ctx.harness_error(format!("table entries never observed on the wire: {:?}", &missing[..missing.len().min(8)]));
    }
}

pub fn replay(ctx: &mut Ctx, case: &Case) {
    let mut r = Rng::new(ctx.seed);
    if case.kind == "oversize" {
        c02_oversize(ctx);
        return;
    }
    match case_to_rp(case) {
        Some((fam, rp)) => match ctx.prop {
            "C01" => c01_case(ctx, &mut r, fam, &rp, case),
            "C02" => c02_case(ctx, &mut r, fam, &rp, case),
            "C09" => c09_case(ctx, &mut r, fam, &rp, case),
            "C10" => c10_case(ctx, &mut r, fam, &rp, case),
            _ => {}
        },
        None => ctx.harness_error("replay file does not hold a decodable valid packet"),
    }
}

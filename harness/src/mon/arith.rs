//! C15 (variable byte integer and length helper laws), C19 (packet identifier cycle),
//! C13 (CONNECT of the other protocol family).

use futures_lite::future::block_on;
use mqtt_proto::{v3, v5, Encodable, GenericPollPacketState, Pid, Protocol};

use crate::conv;
use crate::ev::{guard, hex_short, panic_sig, Case, Ctx};
use crate::fe::*;
use crate::gen;
use crate::io::ScriptedReader;
use crate::refdec::{split_frame, Split};
use crate::refenc::{ref_bytes, ref_encode, Role, Spelling};
use crate::refm::*;
use crate::rng::{fnv_bytes, Rng};
use crate::wl;

// ------------------------------------------------------------------------------------------
// C15

fn vcase(v: u64) -> Case {
    Case::new("value", 0, &[]).p("v", v)
}

/// Pure helpers + writer + standalone reader for one value in 0..2^28.
#[inline]
fn c15_value(c: &mut Ctx, v: u32, with_io: bool) {
    let want = varint_enc(v as u64);
    let w = want.len();
    let vu = v as usize;
    match mqtt_proto::var_int_len(vu) {
        Ok(n) if n == w => {}
        o => c.violation("C15:var_int_len", format!("var_int_len({}) = {:?}, expected {}", v, o, w), vcase(v as u64)),
    }
    let total = vu + 1 + w;
    match mqtt_proto::total_len(vu) {
        Ok(t) if t == total => {}
        o => c.violation("C15:total_len", format!("total_len({}) = {:?}, expected {}", v, o, total), vcase(v as u64)),
    }
    let h = mqtt_proto::header_len(total);
    if h != 1 + w {
        c.violation("C15:header_len", format!("header_len({}) = {}, expected {}", total, h, 1 + w), vcase(v as u64));
    }
    let rl = mqtt_proto::remaining_len(total);
    if rl != vu {
        c.violation("C15:remaining_len", format!("remaining_len({}) = {}, expected {}", total, rl, v), vcase(v as u64));
    }
    if !with_io {
        return;
    }
    // writer, through the Subscription Identifier property
    let vbi = match v5::VarByteInt::try_from(v) {
        Ok(x) => x,
        Err(e) => {
            c.violation("C15:VarByteInt-rejects-valid", format!("VarByteInt::try_from({}) = {:?}", v, e), vcase(v as u64));
            return;
        }
    };
    if vbi.value() != v {
        c.violation("C15:VarByteInt-value", format!("VarByteInt({}).value() = {}", v, vbi.value()), vcase(v as u64));
    }
    let props = v5::SubscribeProperties { subscription_id: Some(vbi), user_properties: Vec::new() };
    let mut buf = [0u8; 16];
    let mut cur = std::io::Cursor::new(&mut buf[..]);
    let res = props.encode(&mut cur);
    let n = cur.position() as usize;
    let decl = props.encode_len();
    let out = &buf[..n];
    // out = [property length (1 byte: 1 + w <= 5)] [0x0B] [var-int]
    if res.is_err() || n != 2 + w || out[0] as usize != 1 + w || out[1] != 0x0B || out[2..] != want[..] {
        c.violation("C15:writer", format!("subscription identifier {} written as {} (expected 0b {})", v, hex_short(out), hex_short(&want)), vcase(v as u64));
    }
    if decl != n {
        c.violation("C15:writer-len", format!("SubscribeProperties::encode_len() = {} but {} bytes written for id {}", decl, n, v), vcase(v as u64));
    }
    // reader, through the same property and through the raw fixed header
    let mut expect_bytes = [0u8; 8];
    expect_bytes[0] = (1 + w) as u8;
    expect_bytes[1] = 0x0B;
    expect_bytes[2..2 + w].copy_from_slice(&want);
    let mut s = &expect_bytes[..2 + w];
    match block_on(v5::SubscribeProperties::decode_async(&mut s, v5::PacketType::Subscribe)) {
        Ok(p) if p.subscription_id.map(|x| x.value()) == Some(v) && s.is_empty() => {}
        o => c.violation("C15:reader-property", format!("subscription identifier {} read back as {:?}", v, o), vcase(v as u64)),
    }
    let mut hb = [0u8; 5];
    hb[0] = 0x30;
    hb[1..1 + w].copy_from_slice(&want);
    let mut s = &hb[..1 + w];
    match block_on(mqtt_proto::decode_raw_header(&mut s)) {
        Ok((0x30, x)) if x == v && s.is_empty() => {}
        o => c.violation("C15:reader-raw-header", format!("decode_raw_header(30 {}) = {:?}, {} bytes left", hex_short(&want), o, s.len()), vcase(v as u64)),
    }
}

/// The poll decoder's header state machine on `[0x30] ++ enc(v)` followed by end of input.
fn c15_poll_header(c: &mut Ctx, v: u32) {
    let want = varint_enc(v as u64);
    let w = want.len();
    let mut data = [0u8; 5];
    data[0] = 0x30;
    data[1..1 + w].copy_from_slice(&want);
    let data = &data[..1 + w];
    let mut st = v3::PollPacketState::default();
    let mut rd = ScriptedReader::ready(data);
    rd.keep_log = false;
    let (run, _) = drive_poll_generic(&mut st, &mut rd, PollMode::Keep, 16, None, Pkt::V3, Er::V3);
    match (&run.out, &st) {
        (Drive::Done(Err(e)), GenericPollPacketState::Body(b)) if v > 0 => {
            // judged: the public, documented fields (`total` = packet size incl. header, the header's
            // remaining length) and the EOF; idx / buffer length are implementation layout
            let ok = e.is_eof() && b.total == v as usize + 1 + w && b.header.remaining_len == v;
            if !ok {
                c.violation(
                    "C15:poll-header-state",
                    format!("after header 30 {}: total {}, remaining_len {}, idx {}, buffer {}; error {:?}", hex_short(&want), b.total, b.header.remaining_len, b.idx, b.buf.len(), e),
                    vcase(v as u64),
                );
            }
        }
        (Drive::Done(Err(e)), GenericPollPacketState::Header(_)) if v == 0 && e.is_remlen() => {}
        // an implementation may reset its caller-held state when it returns an error: then only the
        // outcome (end of input after exactly the header bytes) is observable here, and the value the
        // state machine decoded is judged through the totals of real packets (C01, C05, C08)
        (Drive::Done(Err(e)), GenericPollPacketState::Header(_)) if v > 0 && e.is_eof() && rd.pos == 1 + w => c.count("poll-header.state-reset-after-eof"),
        (o, _) => c.violation("C15:poll-header", format!("poll decoder on header 30 {} gave {:?}", hex_short(&want), o_short(o)), vcase(v as u64)),
    }
}

fn o_short(o: &Drive<Result<PollOk, Er>>) -> String {
    match o {
        Drive::Done(Ok(ok)) => format!("packet total={}", ok.total),
        Drive::Done(Err(e)) => format!("{:?}", e),
        Drive::Stuck(e) => format!("{:?}", e),
    }
}

/// All continuation-bit patterns of 1..=5 bytes, low bits from {0, 1, 0x7f}; complete and cut short.
fn c15_patterns(c: &mut Ctx) {
    let lows = [0u8, 1, 0x7f];
    for len in 1..=5usize {
        let combos = 3usize.pow(len as u32);
        for combo in 0..combos {
            for last_cont in [false, true] {
                let mut bytes = Vec::with_capacity(len);
                let mut k = combo;
                for i in 0..len {
                    let low = lows[k % 3];
                    k /= 3;
                    let cont = i + 1 < len || last_cont;
                    bytes.push(low | if cont { 0x80 } else { 0 });
                }
                c.eval();
                c.distinct_direct += 1;
                let refd = varint_dec(&bytes);
                let case = || Case::new("pattern", 0, &bytes);
                // standalone reader
                let mut hb = vec![0x30u8];
                hb.extend_from_slice(&bytes);
                let mut s = &hb[..];
                let got = block_on(mqtt_proto::decode_raw_header(&mut s));
                let consumed = hb.len() - s.len();
                // a non-minimal spelling of 2-4 bytes (e.g. 80 00) is outside the property: the writer never
                // produces it, so the reader may decode it (then value and consumption must be right) or refuse it
                let ok = match (&refd, &got) {
                    (VarDec::Ok(v, n, _), Ok((0x30, x))) => x == v && consumed == 1 + n,
                    (VarDec::Ok(_, _, false), Err(e)) => !e.is_eof(),
                    (VarDec::TooLong, Err(e)) => conv::v3_err_to_ref(e) == Some(RefErr::VarInt),
                    (VarDec::Incomplete, Err(e)) => e.is_eof(),
                    _ => false,
                };
                c.count(&format!("pattern.len{}.{}", len, match refd {
                    VarDec::Ok(..) => "accepted",
                    VarDec::TooLong => "too-long",
                    VarDec::Incomplete => "incomplete",
                }));
                if !ok {
                    c.violation("C15:pattern:standalone", format!("decode_raw_header on length bytes {} gave {:?} (consumed {}), reference {:?}", hex_short(&bytes), got, consumed, refd), case());
                }
                // property-level reader (same function, different call site)
                let mut pb = vec![0x0Bu8];
                pb.extend_from_slice(&bytes);
                let mut frame = varint_enc(pb.len() as u64);
                frame.extend_from_slice(&pb);
                let mut s = &frame[..];
                let got = block_on(v5::SubscribeProperties::decode_async(&mut s, v5::PacketType::Subscribe));
                let okp = match (&refd, &got) {
                    (VarDec::Ok(v, n, minimal), Ok(p)) => p.subscription_id.map(|x| x.value()) == Some(*v) && (*n == bytes.len()) && (*minimal || true),
                    // a non-minimal identifier makes the canonical length differ from the declared one
                    (VarDec::Ok(_, _, false), Err(_)) => true,
                    (VarDec::Ok(_, n, _), Err(_)) => *n != bytes.len(),
                    (VarDec::TooLong, Err(e)) => conv::v5_err_to_ref(e) == Some(RefErr::VarInt),
                    (VarDec::Incomplete, Err(e)) => e.is_eof(),
                    _ => false,
                };
                if !okp {
                    c.violation("C15:pattern:property", format!("subscription identifier bytes {} gave {:?}, reference {:?}", hex_short(&bytes), got, refd), case());
                }
                // poll header machine
                let mut st = v3::PollPacketState::default();
                let mut rd = ScriptedReader::ready(&hb);
                rd.keep_log = false;
                let (run, _) = drive_poll_generic(&mut st, &mut rd, PollMode::Keep, 16, None, Pkt::V3, Er::V3);
                let okm = match (&refd, &run.out) {
                    (VarDec::Ok(v, n, minimal), Drive::Done(Err(e))) => {
                        if *v == 0 {
                            (e.is_remlen() && rd.pos == 1 + n) || (!*minimal && !e.is_eof())
                        } else {
                            // body missing: EOF, with the header consumed exactly (how the caller-held state
                            // records the header is the implementation's business: C05 judges resumption)
                            (e.is_eof() && rd.pos == 1 + n) || (!*minimal && !e.is_eof())
                        }
                    }
                    (VarDec::TooLong, Drive::Done(Err(e))) => e.to_ref() == Some(RefErr::VarInt),
                    (VarDec::Incomplete, Drive::Done(Err(e))) => e.is_eof(),
                    _ => false,
                };
                if !okm {
                    c.violation("C15:pattern:poll", format!("poll header machine on length bytes {} gave {:?}, reference {:?}", hex_short(&bytes), o_short(&run.out), refd), case());
                }
                // the same with a Pending before every byte and the future re-created from the state each time
                let sched: Vec<crate::io::Step> = (0..hb.len() + 1).flat_map(|_| [crate::io::Step::Pending, crate::io::Step::Give(1)]).collect();
                let mut st2 = v3::PollPacketState::default();
                let mut rd2 = ScriptedReader::new(&hb, &sched);
                rd2.keep_log = false;
                let (run2, _) = drive_poll_generic(&mut st2, &mut rd2, PollMode::Recreate, 64, None, Pkt::V3, Er::V3);
                let same = match (&run.out, &run2.out) {
                    (Drive::Done(a), Drive::Done(b)) => a == b && rd.pos == rd2.pos,
                    _ => false,
                };
                if !same {
                    c.violation(
                        "C15:pattern:poll-suspended",
                        format!("poll header machine on length bytes {} suspended before every byte gave {:?} after {} bytes, uninterrupted {:?} after {} bytes", hex_short(&bytes), o_short(&run2.out), rd2.pos, o_short(&run.out), rd.pos),
                        case().p("schedule", "P g1 repeated"),
                    );
                }
            }
        }
    }
}

fn c15_invalid(c: &mut Ctx) {
    for v in [268_435_456u64, 268_435_457, 268_435_456 + 65_536, 1 << 29, 1 << 31, u32::MAX as u64, (u32::MAX as u64) + 1, 1 << 40] {
        c.eval();
        c.distinct_direct += 1;
        let vu = v as usize;
        if !matches!(guard(|| mqtt_proto::var_int_len(vu)), Ok(Err(e)) if conv::v3_err_to_ref(&e) == Some(RefErr::VarInt)) {
            c.violation("C15:invalid:var_int_len", format!("var_int_len({}) did not fail with InvalidVarByteInt", v), vcase(v));
        }
        if !matches!(guard(|| mqtt_proto::total_len(vu)), Ok(Err(e)) if conv::v3_err_to_ref(&e) == Some(RefErr::VarInt)) {
            c.violation("C15:invalid:total_len", format!("total_len({}) did not fail with InvalidVarByteInt", v), vcase(v));
        }
        if v <= u32::MAX as u64 {
            match guard(|| v5::VarByteInt::try_from(v as u32)) {
                Ok(Err(e)) if conv::v5_err_to_ref(&e) == Some(RefErr::VarInt) => {}
                o => c.violation("C15:invalid:VarByteInt", format!("VarByteInt::try_from({}) = {:?}", v, o), vcase(v)),
            }
        }
        c.count("invalid-values");
    }
}

pub fn c15(ctx: &mut Ctx, layer: &str) {
    let thorough = ctx.thorough && !matches!(layer, "miri" | "vg" | "asan");
    if layer == "miri" {
        let mut r = Rng::new(ctx.seed ^ (wl::shard().0 as u64 + 1).wrapping_mul(7919));
        for _ in 0..40 {
            let v = match r.below(4) {
                0 => r.below(300) as u32,
                1 => 16_383 + r.below(3) as u32,
                _ => r.u32() % 60_000,
            };
            ctx.eval();
            ctx.distinct(v as u64);
            c15_value(ctx, v, true);
            c15_poll_header(ctx, v);
        }
        c15_invalid(ctx);
        return;
    }
    c15_patterns(ctx);
    c15_invalid(ctx);
    wl::par(ctx, |w, n, c, r| {
        let (w, n) = (w as u64, n as u64);
        if thorough {
            // the complete domain, for helpers, writer and standalone reader
            let mut v = w;
            let mut cnt = 0u64;
            while v < VARINT_LIMIT as u64 {
                c15_value(c, v as u32, true);
                v += n;
                cnt += 1;
            }
            c.evals(cnt);
            c.distinct_direct += cnt;
            c.countn("values.full-domain", cnt);
            // the poll header machine: every value below 2^22 (covers the 1-, 2-, 3-byte widths and the
            // start of the 4-byte width completely), the last 4096 values, and a stride over the rest.
            // (It allocates the body buffer for every value; above the allocator's mmap threshold
            // that costs a system call pair per value, measured orders of magnitude slower than
            // estimated when 16 threads contend for the address-space lock — hence no full sweep.)
            let mut cnt = 0u64;
            let mut v = w;
            while v < (1 << 22) {
                c15_poll_header(c, v as u32);
                v += n;
                cnt += 1;
            }
            let mut v = (1u64 << 22) + w * 257;
            while v < VARINT_LIMIT as u64 {
                c15_poll_header(c, v as u32);
                v += n * 257;
                cnt += 1;
            }
            let mut v = VARINT_LIMIT as u64 - 4096 + w;
            while v < VARINT_LIMIT as u64 {
                c15_poll_header(c, v as u32);
                v += n;
                cnt += 1;
            }
            c.evals(cnt);
            c.countn("poll-header.values", cnt);
        } else {
            let span: u64 = if layer == "vg" { 64 } else { 4096 };
            let mut cnt = 0u64;
            let mut pcnt = 0u64;
            // all v < 2^16
            let small: u64 = if layer == "vg" { 1 << 10 } else { 1 << 16 };
            let mut v = w;
            while v < small {
                c15_value(c, v as u32, true);
                c15_poll_header(c, v as u32);
                v += n;
                cnt += 1;
                pcnt += 1;
            }
            // around every width boundary and the top of the domain
            for b in [128u64, 16_384, 2_097_152, 268_435_456] {
                let lo = b.saturating_sub(span);
                let hi = (b + span).min(VARINT_LIMIT as u64);
                let mut v = lo + w;
                while v < hi {
                    if v >= small {
                        c15_value(c, v as u32, true);
                        cnt += 1;
                        if (v.wrapping_sub(b).wrapping_add(64)) < 128 || v % 64 == 0 {
                            c15_poll_header(c, v as u32);
                            pcnt += 1;
                        }
                    }
                    v += n;
                }
            }
            c.distinct_direct += cnt;
            // random values
            let nr: u64 = if layer == "vg" { 2_000 } else { 2_000_000 };
            for i in 0..nr / n {
                let v = r.u32() % VARINT_LIMIT;
                c.distinct(v as u64 | 1 << 40);
                c15_value(c, v, true);
                cnt += 1;
                if i % 64 == 0 {
                    c15_poll_header(c, v);
                    pcnt += 1;
                }
            }
            c.evals(cnt + pcnt);
            c.countn("values", cnt);
            c.countn("poll-header", pcnt);
        }
    });
    let mut samples = Vec::new();
    for v in [0u32, 127, 128, 16_383, 16_384, 2_097_151, 2_097_152, 268_435_455] {
        samples.push(format!("{} -> {}", v, hex_short(&varint_enc(v as u64))));
    }
    ctx.sample(|| samples.join("; "));
}

// ------------------------------------------------------------------------------------------
// C19

#[inline]
fn c19_pair(c: &mut Ctx, p: u16, u: u16) {
    let pid = match Pid::try_from(p) {
        Ok(x) => x,
        Err(_) => {
            c.violation("C19:try_from-rejects-nonzero", format!("Pid::try_from({}) failed", p), Case::new("pair", 0, &[]).p("p", p).p("u", u));
            return;
        }
    };
    let a = pid + u;
    let s = pid - u;
    let wa = pid_add(p, u);
    let ws = pid_sub(p, u);
    let mut ia = pid;
    ia += u;
    let mut is = pid;
    is -= u;
    let back = a - u;
    // the same operators reached through a borrowed identifier (method syntax auto-derefs to the
    // by-value impls today; a dedicated `impl Add<u16> for &Pid` would be picked up here)
    let (ra, rs) = {
        use std::ops::{Add, Sub};
        let r: &Pid = &pid;
        (r.add(u), r.sub(u))
    };
    if a.value() != wa || s.value() != ws || ia != a || is != s || back != pid || a.value() == 0 || s.value() == 0 || ra != a || rs != s {
        c.violation(
            "C19:arithmetic",
            format!(
                "p={} u={}: p+u={} (want {}), p-u={} (want {}), += {} , -= {}, (p+u)-u={}",
                p, u, a.value(), wa, s.value(), ws, ia.value(), is.value(), back.value()
            ),
            Case::new("pair", 0, &[]).p("p", p).p("u", u),
        );
    }
}

fn c19_guarded_row(c: &mut Ctx, p: u16, us: &mut dyn Iterator<Item = u16>) -> u64 {
    let mut n = 0u64;
    let mut it = us.peekable();
    while it.peek().is_some() {
        // guard in blocks so that an overflow panic (chk profile) is attributed
        let block: Vec<u16> = it.by_ref().take(4096).collect();
        n += block.len() as u64;
        let first = block[0];
        let res = guard(|| {
            let mut local = Ctx::new("C19", 0, false);
            for &u in &block {
                c19_pair(&mut local, p, u);
            }
            local
        });
        match res {
            Ok(local) => {
                for (k, (v, cnt)) in local.violations {
                    for _ in 0..cnt.min(1) {
                        c.violation(k.clone(), v.what.clone(), v.case.clone());
                    }
                }
            }
            Err(pm) => {
                // find the culprit
                let mut culprit = first;
                for &u in &block {
                    if guard(|| {
                        let pid = Pid::try_from(p).unwrap();
                        let _ = (pid + u, pid - u);
                    })
                    .is_err()
                    {
                        culprit = u;
                        break;
                    }
                }
                c.violation(format!("C19:panic:{}", panic_sig(&pm)), format!("Pid arithmetic panicked for p={} u={}: {}", p, culprit, pm), Case::new("pair", 0, &[]).p("p", p).p("u", culprit));
            }
        }
    }
    n
}

pub fn c19(ctx: &mut Ctx, layer: &str) {
    // construction
    ctx.eval();
    match guard(|| Pid::try_from(0u16)) {
        Ok(Err(e)) if conv::v3_err_to_ref(&e) == Some(RefErr::ZeroPid) => {}
        o => ctx.violation("C19:try_from-zero", format!("Pid::try_from(0) = {:?}", o), Case::new("pair", 0, &[]).p("p", 0).p("u", 0)),
    }
    if Pid::default().value() != 1 {
        ctx.violation("C19:default", format!("Pid::default() = {}", Pid::default().value()), Case::new("pair", 0, &[]).p("p", 1).p("u", 0));
    }
    let full = ctx.thorough && !matches!(layer, "miri" | "vg" | "asan");
    let tiny = matches!(layer, "miri");
    wl::par(ctx, |w, n, c, r| {
        let mut total = 0u64;
        if tiny {
            for _ in 0..200 {
                let p = (r.below(65_535) + 1) as u16;
                let u = r.u16();
                c19_pair(c, p, u);
                c.distinct(((p as u64) << 16) | u as u64);
                total += 1;
            }
            for (p, u) in [(1u16, 0u16), (1, 1), (1, 65_535), (65_535, 1), (65_535, 65_535), (2, 2), (32_768, 32_768), (300, 301)] {
                c19_pair(c, p, u);
                total += 1;
            }
        } else {
            for p in 1..=65_535u32 {
                if p as usize % n != w {
                    continue;
                }
                let p = p as u16;
                match Pid::try_from(p) {
                    Ok(x) if x.value() == p => {}
                    o => c.violation("C19:value", format!("Pid::try_from({}) = {:?}", p, o), Case::new("pair", 0, &[]).p("p", p).p("u", 0)),
                }
                if full {
                    total += c19_guarded_row(c, p, &mut (0..=65_535u16));
                } else if layer == "vg" {
                    if p % 97 == 0 || p < 4 || p > 65_532 {
                        total += c19_guarded_row(c, p, &mut [0u16, 1, 2, 255, 256, 32_767, 32_768, 65_534, 65_535, p, p.wrapping_sub(1), p.wrapping_add(1), 65_535 - p].into_iter());
                    }
                } else {
                    let interesting = p <= 300 || p >= 65_200;
                    if interesting {
                        total += c19_guarded_row(c, p, &mut (0..=65_535u16));
                    } else {
                        let mut us = (0..=300u16).chain(32_760..=32_776).chain(65_200..=65_535).chain([p, p.wrapping_sub(1), p.wrapping_add(1), 65_535 - p, (65_535 - p).wrapping_add(1)]);
                        total += c19_guarded_row(c, p, &mut us);
                    }
                }
            }
            c.distinct_direct += total;
        }
        c.evals(total);
        c.countn("pairs", total);
    });
    ctx.sample(|| {
        [(65_535u16, 1u16), (1, 1), (1, 65_535), (300, 65_535)]
            .iter()
            .map(|(p, u)| format!("{}+{}={} {}-{}={}", p, u, (Pid::try_from(*p).unwrap() + *u).value(), p, u, (Pid::try_from(*p).unwrap() - *u).value()))
            .collect::<Vec<_>>()
            .join("; ")
    });
}

// ------------------------------------------------------------------------------------------
// C13

fn other(f: Fam) -> Fam {
    if f == Fam::V3 {
        Fam::V5
    } else {
        Fam::V3
    }
}

/// A valid CONNECT of `native` presented to the other family's three front-ends.
fn c13_cross(c: &mut Ctx, native: Fam, rp: &RP) {
    c.eval();
    let enc = ref_bytes(native, rp);
    let (name_len, level) = match rp {
        RP::Connect { name, level, .. } => (name.len(), *level),
        _ => return,
    };
    let dec = other(native);
    let f = dec.n();
    let hdr = match split_frame(&enc) {
        Split::Frame { hdr, .. } => hdr,
        _ => return,
    };
    let limit = hdr + 2 + name_len + 1;
    let want = RefErr::UnexpectedProtocol(level);
    let case = || Case::new("cross", dec.n(), &enc).p("native", native.n());
    c.distinct(fnv_bytes(f as u64, &enc));
    c.count(&format!("cross.level{}.to-v{}", level, f));
    c.sample(|| format!("level-{} CONNECT to the v{} decoder: {}", level, f, hex_short(&enc)));
    // the natively decoded packet, for the continuation check
    let native_pkt = match dec_block(native, &enc) {
        DecOut::Pkt(p) => p,
        o => {
            c.inconclusive(format!("native decode of a valid CONNECT failed: {:?} (see C01)", o.class()));
            return;
        }
    };
    // blocking
    match guard(|| dec_block(dec, &enc)) {
        Ok(DecOut::Err(e)) if e.to_ref().as_ref() == Some(&want) => {}
        o => c.violation(format!("C13:v{}:block:level{}", f, level), format!("blocking decoder returned {:?}, expected UnexpectedProtocol({})", o.map(|x| x.class()), level), case()),
    }
    // async: error identity, position, continuation on the same reader
    {
        let mut rd = ScriptedReader::ready(&enc);
        rd.keep_log = false;
        match guard(|| dec_async(dec, &mut rd, enc.len() + 16)) {
            Ok(Drive::Done(Err(e))) if e.to_ref().as_ref() == Some(&want) => {
                if rd.pos > limit {
                    c.violation(format!("C13:v{}:async:consumed", f), format!("reader at {} when the error was returned; protocol name and level end at {}", rd.pos, limit), case());
                } else {
                    // continue with the matching family's known-protocol entry point
                    let proto = match conv::proto_from(
                        match rp {
                            RP::Connect { name, .. } => name,
                            _ => unreachable!(),
                        },
                        level,
                    ) {
                        Some(p) => p,
                        None => return,
                    };
                    // bytes not yet consumed (if the decoder stopped early it still has to read the rest of name/level itself: not supported by the API, so require == limit)
                    if rd.pos != limit {
                        c.violation(format!("C13:v{}:async:position", f), format!("reader at {} when the error was returned, expected exactly {}", rd.pos, limit), case());
                        return;
                    }
                    let cont = guard(|| match native {
                        Fam::V3 => block_on(v3::Connect::decode_with_protocol(&mut rd, proto)).map(|x| Pkt::V3(x.into())).map_err(Er::V3),
                        Fam::V5 => {
                            let h = v5::Header::new(v5::PacketType::Connect, false, mqtt_proto::QoS::Level0, false, (enc.len() - hdr) as u32);
                            block_on(v5::Connect::decode_with_protocol(&mut rd, h, proto)).map(|x| Pkt::V5(x.into())).map_err(Er::V5)
                        }
                    });
                    match cont {
                        Ok(Ok(p)) if p == native_pkt && rd.pos == enc.len() => c.count("continuations"),
                        o => c.violation(
                            format!("C13:v{}:continuation", f),
                            format!("decode_with_protocol on the remaining bytes gave {:?}, native decode gives {}", o.map(|r| r.map(|p| crate::mon::valid::short(&p))), crate::mon::valid::short(&native_pkt)),
                            case(),
                        ),
                    }
                }
            }
            o => c.violation(
                format!("C13:v{}:async:level{}", f, level),
                format!("async decoder returned {:?}, expected UnexpectedProtocol({})", o.map(|d| match d { Drive::Done(r) => format!("{:?}", r.map(|p| crate::mon::valid::short(&p))), Drive::Stuck(e) => format!("{:?}", e) }), level),
                case(),
            ),
        }
    }
    // poll: error identity; the rest is taken from the state's body buffer
    let poll_rest = |st_buf: Vec<u8>| -> Option<Vec<u8>> { st_buf.get(2 + name_len + 1..).map(|x| x.to_vec()) };
    let (out, rest) = match dec {
        Fam::V3 => {
            let mut st = v3::PollPacketState::default();
            let mut rd = ScriptedReader::ready(&enc);
            rd.keep_log = false;
            let (run, _) = drive_poll_generic(&mut st, &mut rd, PollMode::Keep, enc.len() + 16, None, Pkt::V3, Er::V3);
            let rest = match st {
                GenericPollPacketState::Body(b) if b.idx == b.buf.len() => poll_rest(body_to_vec(b.buf)),
                _ => None,
            };
            (run.out, rest)
        }
        Fam::V5 => {
            let mut st = v5::PollPacketState::default();
            let mut rd = ScriptedReader::ready(&enc);
            rd.keep_log = false;
            let (run, _) = drive_poll_generic(&mut st, &mut rd, PollMode::Keep, enc.len() + 16, None, Pkt::V5, Er::V5);
            let rest = match st {
                GenericPollPacketState::Body(b) if b.idx == b.buf.len() => poll_rest(body_to_vec(b.buf)),
                _ => None,
            };
            (run.out, rest)
        }
    };
    match out {
        Drive::Done(Err(e)) if e.to_ref().as_ref() == Some(&want) => {
            if let (Some(rest), Some(proto)) = (rest, conv::proto_from(match rp { RP::Connect { name, .. } => name, _ => unreachable!() }, level)) {
                let mut s = &rest[..];
                let cont = guard(|| match native {
                    Fam::V3 => block_on(v3::Connect::decode_with_protocol(&mut s, proto)).map(|x| Pkt::V3(x.into())).map_err(Er::V3),
                    Fam::V5 => {
                        let h = v5::Header::new(v5::PacketType::Connect, false, mqtt_proto::QoS::Level0, false, (enc.len() - hdr) as u32);
                        block_on(v5::Connect::decode_with_protocol(&mut s, h, proto)).map(|x| Pkt::V5(x.into())).map_err(Er::V5)
                    }
                });
                match cont {
                    Ok(Ok(p)) if p == native_pkt => c.count("continuations-poll"),
                    o => c.violation(format!("C13:v{}:continuation-poll", f), format!("decode_with_protocol on the poll state's buffer gave {:?}", o.map(|r| r.map(|p| crate::mon::valid::short(&p)))), case()),
                }
            } else {
                // The property's continuation clause is about decoders that read incrementally from a
                // reader (they stop after name + level); the poll decoder has taken the whole frame from
                // the transport by then, and whether its caller-held state still exposes the body after an
                // error is not stated anywhere (an implementation that resets the state on error keeps
                // every property). Observed, not judged.
                c.count("poll-state-without-body-after-error");
            }
        }
        o => c.violation(format!("C13:v{}:poll:level{}", f, level), format!("poll decoder returned {}, expected UnexpectedProtocol({})", o_short(&o), level), case()),
    }
}

/// Every protocol level with correct and corrupted names, through both families.
fn c13_levels(c: &mut Ctx) {
    let long = vec![b'x'; 65_535];
    let names: Vec<&[u8]> = vec![
        b"MQTT", b"MQIsdp", b"", b"MQT", b"MQTTT", b"mqtt", b"MQIsdP", b"MQTT\0", "MQTé".as_bytes(), "𝄞QTT".as_bytes(), &long, b"MQ\xffT", b"\xc0\xaf", b"MQTT ", b"MQIsdp\0",
    ];
    for fam in [Fam::V3, Fam::V5] {
        let f = fam.n();
        for name in &names {
            for level in 0..=255u8 {
                c.eval();
                c.distinct_direct += 1;
                // a CONNECT that is otherwise valid for this (name, level)
                let is5 = level == 5 && *name == b"MQTT";
                let rp = RP::Connect {
                    name: name.to_vec(),
                    level,
                    clean: true,
                    keep_alive: 60,
                    client_id: b"c".to_vec(),
                    will: None,
                    username: None,
                    password: None,
                    props: Vec::new(),
                };
                // encode in the layout the (name, level) pair announces
                let enc = ref_bytes(if is5 { Fam::V5 } else { Fam::V3 }, &rp);
                let known = conv::proto_from(name, level);
                let want: Result<(), RefErr> = match known {
                    Some(_) if (level == 5) == (fam == Fam::V5) => Ok(()),
                    Some(_) => Err(RefErr::UnexpectedProtocol(level)),
                    None => {
                        if utf8_ok(name) {
                            Err(RefErr::Protocol(name.to_vec(), level))
                        } else {
                            Err(RefErr::BadString)
                        }
                    }
                };
                let cls = match &want {
                    Ok(()) => "accept",
                    Err(e) => e.class(),
                };
                c.count(&format!("levels.v{}.{}", f, cls));
                let case = || Case::new("level", f, &enc[..enc.len().min(64)]).p("level", level).p("name", crate::ev::hex(&name[..name.len().min(32)]));
                for fe in ["block", "poll"] {
                    let got: Result<(), Option<RefErr>> = match fe {
                        "block" => match guard(|| dec_block(fam, &enc)) {
                            Ok(DecOut::Pkt(_)) => Ok(()),
                            Ok(DecOut::Err(e)) => Err(e.to_ref()),
                            _ => Err(None),
                        },
                        _ => match guard(|| dec_poll_bytes(fam, &enc)) {
                            Ok((Drive::Done(Ok(_)), _)) => Ok(()),
                            Ok((Drive::Done(Err(e)), _)) => Err(e.to_ref()),
                            _ => Err(None),
                        },
                    };
                    let ok = match (&want, &got) {
                        (Ok(()), Ok(())) => true,
                        (Err(w), Err(Some(g))) => w == g,
                        _ => false,
                    };
                    if !ok {
                        c.violation(
                            format!("C13:v{}:{}:name-level:{}", f, fe, cls),
                            format!("CONNECT with protocol name {:?} level {}: {} decoder gave {:?}, expected {:?}", String::from_utf8_lossy(&name[..name.len().min(16)]), level, fe, got, want),
                            case(),
                        );
                    }
                }
                // Protocol::new directly
                match guard(|| Protocol::new(name, level)) {
                    Ok(r) => {
                        let ok = match (&known, &r) {
                            (Some(k), Ok(p)) => k == p && conv::proto_pair(*p) == (*name, level) && p.to_pair() == (*name, level),
                            (None, Err(e)) => match conv::v3_err_to_ref(e) {
                                Some(RefErr::Protocol(n, l)) => utf8_ok(name) && n == *name && l == level,
                                Some(RefErr::BadString) => !utf8_ok(name),
                                _ => false,
                            },
                            _ => false,
                        };
                        if !ok {
                            c.violation("C13:Protocol::new", format!("Protocol::new({:?}, {}) = {:?}", String::from_utf8_lossy(&name[..name.len().min(16)]), level, r), case());
                        }
                    }
                    Err(pm) => c.violation(format!("C13:Protocol::new:panic:{}", panic_sig(&pm)), pm, case()),
                }
            }
        }
    }
    // to_pair / new / Encodable agree for the three known versions
    for p in [Protocol::V310, Protocol::V311, Protocol::V500] {
        c.eval();
        let (n, l) = p.to_pair();
        let mut v = Vec::new();
        let _ = p.encode(&mut v);
        let mut want = vec![0, n.len() as u8];
        want.extend_from_slice(n);
        want.push(l);
        if Protocol::new(n, l).ok() != Some(p) || (n, l) != conv::proto_pair(p) || v != want || p.encode_len() != want.len() {
            c.violation("C13:Protocol:to_pair-new-encode", format!("{:?}: to_pair {:?}, encode {}", p, (n, l), hex_short(&v)), Case::new("level", 0, &v));
        }
    }
}

pub fn c13(ctx: &mut Ctx, layer: &str) {
    let g1: usize = match layer {
        "miri" => if ctx.thorough { 500 } else { 40 },
        "vg" => 200,
        _ => {
            if ctx.thorough {
                5_000_000
            } else {
                150_000
            }
        }
    };
    if !matches!(layer, "miri") {
        c13_levels(ctx);
    }
    wl::par(ctx, |w, n, c, r| {
        for fam in [Fam::V3, Fam::V5] {
            // every CONNECT of G2
            let mut er = Rng::for_worker(c.seed, "G2", fam.n() as u64);
            let mut idx = 0;
            let mut items = Vec::new();
            gen::enum_g2(&mut er, fam, if layer == "miri" { 1 } else { 256 }, &mut |rp| {
                if matches!(rp, RP::Connect { .. }) {
                    if idx % n == w {
                        items.push(rp);
                    }
                    idx += 1;
                }
            });
            if layer == "miri" {
                items.truncate(4);
            }
            for rp in &items {
                c13_cross(c, fam, rp);
            }
            for _ in 0..g1 / n / 2 + 1 {
                let big = r.chance(1, 30);
                let rp = gen::gen_rp(r, fam, 1, big);
                c13_cross(c, fam, &rp);
            }
        }
    });
    let _ = (ref_encode, Role::Ctl, Spelling::default());
}

pub fn replay(ctx: &mut Ctx, case: &Case) {
    match ctx.prop {
        "C15" => {
            if let Some(v) = case.get_u64("v") {
                if v < VARINT_LIMIT as u64 {
                    c15_value(ctx, v as u32, true);
                    c15_poll_header(ctx, v as u32);
                } else {
                    c15_invalid(ctx);
                }
            } else {
                c15_patterns(ctx);
            }
        }
        "C19" => {
            let p = case.get_u64("p").unwrap_or(1) as u16;
            let u = case.get_u64("u").unwrap_or(0) as u16;
            if p == 0 {
                return;
            }
            let _ = c19_guarded_row(ctx, p, &mut [u].into_iter());
        }
        "C13" => {
            if case.kind == "cross" {
                let native = Fam::from_n(case.get_u64("native").unwrap_or(3) as u8);
                if let Some(RefOut::Accept(rp, _)) = crate::refdec::ref_decode(native, &case.bytes) {
                    c13_cross(ctx, native, &rp);
                }
            } else {
                c13_levels(ctx);
            }
        }
        _ => {}
    }
}

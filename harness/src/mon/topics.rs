//! C16 (topic filter validation), C17 (shared-subscription accessors, comparisons),
//! C18 (topic name validation): bounded-exhaustive enumeration against the reference rules.

use std::collections::hash_map::DefaultHasher;
use std::hash::{Hash, Hasher};

use mqtt_proto::{TopicFilter, TopicName};

use crate::ev::{guard, panic_sig, Case, Ctx};
use crate::fe::*;
use crate::refenc::{ref_encode, Spelling};
use crate::refm::*;
use crate::rng::{fnv_bytes, Rng};
use crate::wl;

const SIGMA_FILTER: [&str; 8] = ["/", "+", "#", "$", "a", "\0", "é", "𝄞"];
const SIGMA_NAME: [&str; 8] = ["/", "+", "#", "$", "S", "a", "\0", "é"];

const PREFIXES_FILTER: [&str; 29] = [
    "", "$share/", "$share/g/", "$share/g", "$share", "$shar", "$sharee/", "$SHARE/g/", "$share/é/", "$share//", "$share/+/", "$share/#/", "$share/g+/", "/$share/g/",
    // look-alikes of the marker with one multi-byte character, and a seven-character first level
    "éshare/", "$éhare/", "$sharé/", "$sh𝄞re/", "$shareé/", "éééééé/", "$share\u{0}/", "abcdef/",
    // share names / filters that look like the marker themselves
    "$share/$share/", "$share/$share", "$share/g/$share/",
    // the $SYS/ marker at the start and elsewhere
    "$SYS/", "a/$SYS/", "x$SYS/", "$share/g/$SYS/",
];
const PREFIXES_NAME: [&str; 11] = ["", "$share/", "$SYS/", "$sys/", "$SYS", "a/$SYS/", "/$SYS/", "x$SYS/", "$SYS/$SYS/", "a/$share/", "x$share/"];

fn scase(s: &str) -> Case {
    Case::new("string", 0, s.as_bytes())
}

/// Enumerate all strings of `0..=maxsym` symbols over `sigma`, each behind every prefix;
/// worker `w` of `n` takes the combinations whose (prefix, first symbol) index is its share.
fn enumerate(sigma: &[&str], prefixes: &[&str], maxsym: usize, w: usize, n: usize, f: &mut dyn FnMut(&str)) {
    let k = sigma.len();
    let mut buf = String::with_capacity(64);
    let mut job = 0usize;
    for p in prefixes {
        // the empty suffix
        if job % n == w {
            f(p);
        }
        job += 1;
        for first in 0..k {
            if job % n == w {
                // all strings starting with sigma[first], of 1..=maxsym symbols
                let mut idx = vec![0usize; maxsym];
                for len in 1..=maxsym {
                    for x in idx.iter_mut() {
                        *x = 0;
                    }
                    idx[0] = first;
                    loop {
                        buf.clear();
                        buf.push_str(p);
                        for i in 0..len {
                            buf.push_str(sigma[idx[i]]);
                        }
                        f(&buf);
                        // increment positions 1..len (position 0 is fixed)
                        let mut i = len;
                        let mut done = true;
                        while i > 1 {
                            i -= 1;
                            idx[i] += 1;
                            if idx[i] < k {
                                done = false;
                                break;
                            }
                            idx[i] = 0;
                        }
                        if done {
                            break;
                        }
                    }
                }
            }
            job += 1;
        }
    }
}

fn filter_rule_class(s: &[u8]) -> &'static str {
    if valid_filter(s) {
        if s.starts_with(b"$share/") {
            return "valid-shared";
        }
        return "valid";
    }
    if s.is_empty() {
        return "empty";
    }
    if s.len() > 65_535 {
        return "too-long";
    }
    if s.contains(&0) {
        return "nul";
    }
    let levels: Vec<&[u8]> = s.split(|b| *b == b'/').collect();
    let n = levels.len();
    for (i, l) in levels.iter().enumerate() {
        if l.contains(&b'#') && (*l != b"#" || i + 1 != n) {
            return "hash-misplaced";
        }
        if l.contains(&b'+') && *l != b"+" {
            return "plus-not-whole-level";
        }
    }
    "bad-share-syntax"
}

// ------------------------------------------------------------------------------------------
// C16

#[inline]
fn c16_string(c: &mut Ctx, s: &str, deep: bool) {
    let want_valid = valid_filter(s.as_bytes());
    let (inv, _) = TopicFilter::is_invalid(s);
    if inv == want_valid {
        c.violation(
            format!("C16:is_invalid:{}", filter_rule_class(s.as_bytes())),
            format!("TopicFilter::is_invalid({:?}) = {}, the specification says the filter is {}", s, inv, if want_valid { "valid" } else { "invalid" }),
            scase(s),
        );
    }
    if !deep {
        return;
    }
    // the same text goes through the *other* validator first (a client that publishes to the string it
    // just subscribed to): a decision remembered from there must not leak into this one
    let _ = TopicName::try_from(s.to_string());
    match TopicFilter::try_from(s.to_string()) {
        Ok(f) => {
            if inv || &*f != s {
                c.violation("C16:try_from-vs-is_invalid", format!("try_from({:?}) succeeded although is_invalid = {}", s, inv), scase(s));
            }
        }
        Err(e) => {
            let ok = matches!(&e, mqtt_proto::Error::InvalidTopicFilter(x) if x == s);
            if !inv || !ok {
                c.violation("C16:try_from-error", format!("try_from({:?}) = Err({:?}) (is_invalid = {})", s, e, inv), scase(s));
            }
        }
    }
}

/// Strings built from two filler runs of every length 0..=maxlen around fixed markers: the shapes a
/// bounded enumeration over short strings cannot reach (block-wise scanners, offsets kept in narrow
/// integers, state carried across long levels). `pats` items are (head, mid, tail): the string is
/// head ++ F^n1 ++ mid ++ G^n2 ++ tail for fillers F, G of 1, 2 or 3 bytes.
fn segment_sweep(pats: &[(&str, &str, &str)], maxlen: usize, w: usize, n: usize, f: &mut dyn FnMut(&str)) {
    let fillers: [(&str, &str); 4] = [("a", "b"), ("é", "b"), ("a", "你"), ("你", "é")];
    let mut k = 0usize;
    let mut s = String::new();
    for (head, mid, tail) in pats {
        for (fa, fb) in fillers.iter() {
            for n1 in 0..=maxlen {
                k += 1;
                if k % n != w {
                    continue;
                }
                // n1 and n2 count characters, so byte offsets of the markers vary with the fillers
                s.clear();
                s.push_str(head);
                for _ in 0..n1 {
                    s.push_str(fa);
                }
                s.push_str(mid);
                let base = s.len();
                for n2 in 0..=maxlen {
                    s.truncate(base);
                    for _ in 0..n2 {
                        s.push_str(fb);
                    }
                    s.push_str(tail);
                    f(&s);
                }
            }
        }
    }
}

const SWEEP_FILTER: [(&str, &str, &str); 14] = [
    ("", "/", "#"),
    ("", "/", "+"),
    ("", "/", "+/x"),
    ("", "#/", ""),
    ("", "+/", ""),
    ("", "/#/", ""),
    ("", "/", "/#"),
    ("", "/+/", ""),
    ("", "\0", ""),
    ("$share/", "/", ""),
    ("$share/", "/", "#"),
    ("$share/", "/", "/#"),
    ("$share/", "+/", ""),
    ("x/", "/+", ""),
];

const SWEEP_NAME: [(&str, &str, &str); 6] = [("", "/", ""), ("", "+", ""), ("", "#", ""), ("", "\0", ""), ("$SYS/", "/", "#"), ("", "/", "+")];

/// The decision for `s` carried as the only filter of SUBSCRIBE / UNSUBSCRIBE packets.
fn c16_packet_route(c: &mut Ctx, s: &str) {
    if s.len() > 65_535 {
        return;
    }
    let want_valid = valid_filter(s.as_bytes());
    for fam in [Fam::V3, Fam::V5] {
        for rp in [
            RP::Subscribe { pid: 1, props: Vec::new(), topics: vec![(s.as_bytes().to_vec(), 1)] },
            RP::Unsubscribe { pid: 1, props: Vec::new(), topics: vec![s.as_bytes().to_vec()] },
        ] {
            c.eval();
            c.count("packet-route");
            let frame = ref_encode(fam, &rp, &Spelling::default()).bytes();
            let case = || Case::new("string", fam.n(), s.as_bytes()).p("route", TYPE_NAMES[rp.typ() as usize]);
            match guard(|| dec_poll_bytes(fam, &frame)) {
                Ok((Drive::Done(Ok(ok)), _)) => {
                    let same_text = match &ok.pkt.to_ref() {
                        RP::Subscribe { topics, .. } => topics.len() == 1 && topics[0].0 == s.as_bytes(),
                        RP::Unsubscribe { topics, .. } => topics.len() == 1 && topics[0] == s.as_bytes(),
                        _ => false,
                    };
                    if !want_valid || !same_text {
                        c.violation(
                            format!("C16:packet:v{}:{}:accepted:{}", fam.n(), TYPE_NAMES[rp.typ() as usize], filter_rule_class(s.as_bytes())),
                            format!("filter {:?} inside {} accepted (valid per specification: {})", s, TYPE_NAMES[rp.typ() as usize], want_valid),
                            case(),
                        );
                    }
                }
                Ok((Drive::Done(Err(e)), _)) => {
                    let right = e.to_ref() == Some(RefErr::TopicFilter(s.as_bytes().to_vec()));
                    if want_valid || !right {
                        c.violation(
                            format!("C16:packet:v{}:{}:rejected:{}", fam.n(), TYPE_NAMES[rp.typ() as usize], filter_rule_class(s.as_bytes())),
                            format!("filter {:?} inside {} rejected with {:?} (valid per specification: {})", s, TYPE_NAMES[rp.typ() as usize], e, want_valid),
                            case(),
                        );
                    }
                }
                o => c.violation(format!("C16:packet:v{}:crash", fam.n()), format!("{:?}", o.err()), case()),
            }
        }
    }
}

fn long_multibyte_strings(r: &mut Rng, n: usize, f: &mut dyn FnMut(&str)) {
    for _ in 0..n {
        let b = crate::gen::long_invalid_filter(r);
        f(std::str::from_utf8(&b).expect("generator yields UTF-8"));
        // and a valid long one: levels of multi-byte text
        let len = r.range(100, 400);
        let mut s = String::from_utf8(crate::gen::text_exact(r, len)).expect("utf8");
        s.push_str(*r.pick(&["/#", "/+", "/x", ""]));
        f(&s);
    }
}

fn long_strings(r: &mut Rng, f: &mut dyn FnMut(&str)) {
    for len in [65_533usize, 65_534, 65_535, 65_536, 65_537] {
        for tail in ["", "/+", "/#", "+", "#", "/a", "\0", "/+/", "é"] {
            let mut s = String::with_capacity(len + 8);
            let head = if r.bool() { "$share/grp/" } else { "" };
            s.push_str(head);
            while s.len() + tail.len() < len {
                s.push(if r.chance(1, 50) { '/' } else { 'x' });
            }
            s.push_str(tail);
            while s.len() < len {
                s.push('y');
            }
            f(&s);
        }
    }
}

/// Characters that collapse onto one of the special ASCII characters under a lossy narrowing of the
/// code point (`c as u8`, `c as u16`, low seven bits), placed where the special character itself
/// would change the decision. A validator that classifies characters through a table indexed by a
/// truncated code point, or that skips non-ASCII characters before the wildcard rules, decides
/// these differently from the specification (round 9: `seeded/P05`, `seeded/P04`).
fn lookalike_strings(small: bool, f: &mut dyn FnMut(&str)) {
    const SPECIALS: [u32; 5] = [0x00, 0x23, 0x2B, 0x2F, 0x24];
    const BASES: [u32; 9] = [0x100, 0x1_F600, 0x80, 0x200, 0x300, 0x4E00, 0xFF00, 0x1_0000, 0x10_FF00];
    const TEMPLATES: [&str; 20] = [
        "{}", "a{}", "{}a", "a/{}", "{}/a", "+{}", "{}+", "a/+{}", "a/{}/b", "{}#", "#{}", "a/{}{}", "$share/{}/a", "$share/g/{}", "$share/g{}/a", "$SYS/{}", "{}SYS/a", "$share{}g/a",
        "{}share/g/a", "a/+{}/#",
    ];
    let nb = if small { 2 } else { BASES.len() };
    let nt = if small { 8 } else { TEMPLATES.len() };
    for &b in &BASES[..nb] {
        for &s in &SPECIALS {
            if let Some(ch) = char::from_u32(b + s) {
                let mut cs = [0u8; 4];
                let cs: &str = ch.encode_utf8(&mut cs);
                for t in &TEMPLATES[..nt] {
                    f(&t.replace("{}", cs));
                }
            }
        }
    }
}

pub fn c16(ctx: &mut Ctx, layer: &str) {
    let maxsym = match layer {
        "miri" => 2,
        "vg" => 4,
        _ => {
            if ctx.thorough {
                8
            } else {
                7
            }
        }
    };
    let route_every: u64 = match layer {
        "miri" => 20,
        "vg" => 200,
        _ => {
            if ctx.thorough {
                27
            } else {
                41
            }
        }
    };
    let layer_is_small = matches!(layer, "miri" | "vg");
    wl::par(ctx, |w, n, c, r| {
        let mut cnt = 0u64;
        let mut classes: std::collections::BTreeMap<&'static str, u64> = Default::default();
        let res = guard(|| {
            let mut local = c.child();
            enumerate(&SIGMA_FILTER, &PREFIXES_FILTER, maxsym, w, n, &mut |s| {
                cnt += 1;
                let deep = cnt % 7 == 0 || s.len() <= 4;
                c16_string(&mut local, s, deep);
                if cnt % 64 == 0 {
                    *classes.entry(filter_rule_class(s.as_bytes())).or_insert(0) += 64;
                }
                if cnt % route_every == 0 {
                    c16_packet_route(&mut local, s);
                }
            });
            local
        });
        match res {
            Ok(local) => c.merge(local),
            Err(pm) => c.violation(format!("C16:panic:{}", panic_sig(&pm)), format!("filter validation panicked: {}", pm), Case::new("string", 0, &[])),
        }
        c.evals(cnt);
        c.distinct_direct += cnt;
        for (k, v) in classes {
            c.countn(&format!("class~.{}", k), v);
        }
        if w == 0 {
            let mut lr = r.clone();
            long_strings(&mut lr, &mut |s| {
                c.eval();
                c.count("long-strings");
                c16_string(c, s, true);
                c16_packet_route(c, s);
            });
        }
        {
            // long strings with multi-byte characters at arbitrary offsets, valid and invalid (all workers)
            let mut lr = r.clone();
            let per = if layer_is_small { 4 } else { 400 };
            let res = guard(|| {
                let mut local = c.child();
                long_multibyte_strings(&mut lr, per, &mut |s| {
                    local.eval();
                    local.distinct(fnv_bytes(16, s.as_bytes()));
                    local.count("long-multibyte-strings");
                    c16_string(&mut local, s, true);
                    c16_packet_route(&mut local, s);
                });
                local
            });
            match res {
                Ok(local) => c.merge(local),
                Err(pm) => c.violation(format!("C16:panic:{}", panic_sig(&pm)), format!("filter validation / SUBSCRIBE decoding panicked on a long multi-byte string: {}", pm), Case::new("string", 0, &[])),
            }
        }
        {
            // two filler runs of every length around the wildcard / separator / share markers
            let maxlen = if layer_is_small { 9 } else if c.thorough { 400 } else { 150 };
            let mut cnt2 = 0u64;
            let res = guard(|| {
                let mut local = c.child();
                segment_sweep(&SWEEP_FILTER, maxlen, w, n, &mut |s| {
                    cnt2 += 1;
                    c16_string(&mut local, s, cnt2 % 97 == 0);
                    if cnt2 % 4099 == 0 {
                        c16_packet_route(&mut local, s);
                    }
                });
                local
            });
            match res {
                Ok(local) => c.merge(local),
                Err(pm) => c.violation(format!("C16:panic:{}", panic_sig(&pm)), format!("filter validation panicked in the segment-length sweep: {}", pm), Case::new("string", 0, &[])),
            }
            c.evals(cnt2);
            c.distinct_direct += cnt2;
            c.countn("segment-sweep", cnt2);
        }
        if w == 1 % n {
            let res = guard(|| {
                let mut local = c.child();
                lookalike_strings(layer_is_small, &mut |s| {
                    local.eval();
                    local.distinct(fnv_bytes(16, s.as_bytes()));
                    local.count("code-point-lookalikes");
                    c16_string(&mut local, s, true);
                    c16_packet_route(&mut local, s);
                });
                local
            });
            match res {
                Ok(local) => c.merge(local),
                Err(pm) => c.violation(format!("C16:panic:{}", panic_sig(&pm)), format!("filter validation / SUBSCRIBE decoding panicked on a look-alike character: {}", pm), Case::new("string", 0, &[])),
            }
        }
        if w == 0 {
            for s in ["+", "#", "+/+", "+x", "a/+x", "$share/g/+x", "x+", "a/#", "a/#/", "$share/g/a", "$share/g", "sport/+/player1", "/", "//", "$share/é𝄞/+/#"] {
                c.sample(|| format!("{:?} -> lib says {}", s, if TopicFilter::is_invalid(s).0 { "invalid" } else { "valid" }));
                c16_string(c, s, true);
                c16_packet_route(c, s);
            }
        }
    });
}

// ------------------------------------------------------------------------------------------
// C17

fn h1<T: Hash>(x: &T) -> u64 {
    let mut h = DefaultHasher::new();
    x.hash(&mut h);
    h.finish()
}

/// a second, different hasher (FNV-1a over the bytes fed by Hash)
struct Fnv(u64);
impl Hasher for Fnv {
    fn finish(&self) -> u64 {
        self.0
    }
    fn write(&mut self, b: &[u8]) {
        for x in b {
            self.0 ^= *x as u64;
            self.0 = self.0.wrapping_mul(0x100_0000_01b3);
        }
    }
}
fn h2<T: Hash>(x: &T) -> u64 {
    let mut h = Fnv(0xcbf2_9ce4_8422_2325);
    x.hash(&mut h);
    h.finish()
}

fn c17_filter(c: &mut Ctx, s: &str, f: &TopicFilter) {
    let b = s.as_bytes();
    let shared = b.starts_with(b"$share/");
    if f.is_shared() != shared {
        c.violation("C17:is_shared", format!("is_shared() = {} for {:?}", f.is_shared(), s), scase(s));
    }
    let want = if shared { shared_split(b).map(|(g, t)| (String::from_utf8_lossy(g).to_string(), String::from_utf8_lossy(t).to_string())) } else { None };
    match guard(|| (f.shared_group_name().map(|x| x.to_string()), f.shared_filter().map(|x| x.to_string()), f.shared_info().map(|(a, b)| (a.to_string(), b.to_string())))) {
        Err(pm) => c.violation(format!("C17:accessor-panic:{}", panic_sig(&pm)), format!("shared accessors panicked for {:?}: {}", s, pm), scase(s)),
        Ok((g, t, info)) => {
            if info != want || g != want.as_ref().map(|x| x.0.clone()) || t != want.as_ref().map(|x| x.1.clone()) {
                c.violation(
                    if shared { "C17:split" } else { "C17:non-shared-reports-share" },
                    format!("{:?}: shared_group_name {:?}, shared_filter {:?}, shared_info {:?}; unique split {:?}", s, g, t, info, want),
                    scase(s),
                );
            }
            if let Some((g, t)) = &want {
                if format!("$share/{}/{}", g, t) != s {
                    c.harness_error("reference split does not reassemble");
                }
            }
        }
    }
    if f.to_string() != s || &**f != s {
        c.violation("C17:text", format!("to_string() / deref of the filter built from {:?} give {:?} / {:?}", s, f.to_string(), &**f), scase(s));
    }
    if f.is_sys() != s.starts_with("$SYS/") {
        c.violation("C17:is_sys", format!("is_sys() = {} for {:?}", f.is_sys(), s), scase(s));
    }
    let owned = s.to_string();
    // Hash must be a function of the text alone (compared between two filter objects below); it need
    // not equal the String's hash, but equal text => equal hash under any hasher.
    let _ = owned;
}

fn c17_pairs(c: &mut Ctx, bucket: &[(String, TopicFilter)]) {
    for (i, (s, f)) in bucket.iter().enumerate() {
        for (t, g) in &bucket[i..] {
            c.eval();
            let eq = f == g;
            let ord = f.cmp(g);
            let pord = f.partial_cmp(g);
            if eq != (s == t) || ord != s.cmp(t) || pord != Some(s.cmp(t)) {
                c.violation("C17:eq-ord", format!("{:?} vs {:?}: == {}, cmp {:?}", s, t, eq, ord), Case::new("pair", 0, s.as_bytes()).p("other", crate::ev::hex(t.as_bytes())));
            }
            if s == t && (h1(f) != h1(g) || h2(f) != h2(g)) {
                c.violation("C17:hash", format!("equal filters {:?} hash differently", s), scase(s));
            }
        }
        // a clone and an independently built filter of the same text
        let again = TopicFilter::try_from(s.clone()).expect("valid");
        let cl = f.clone();
        if again != *f || cl != *f || h1(&again) != h1(f) || h2(&again) != h2(f) || h1(&cl) != h1(f) || again.cmp(f) != std::cmp::Ordering::Equal {
            c.violation("C17:rebuilt", format!("a second filter built from {:?} is not equal / hashes differently", s), scase(s));
        }
        // hash consistency with how the text itself hashes: a filter must hash like another filter
        // with the same text; if the implementation included the cached index, a decoded and a
        // constructed filter could differ — covered by c17_decoded.
    }
}

/// A filter decoded from a packet compares equal to / hashes like one built by try_from.
fn c17_decoded(c: &mut Ctx, s: &str, built: &TopicFilter) {
    for fam in [Fam::V3, Fam::V5] {
        c.eval();
        let rp = RP::Subscribe { pid: 1, props: Vec::new(), topics: vec![(s.as_bytes().to_vec(), 0)] };
        let frame = ref_encode(fam, &rp, &Spelling::default()).bytes();
        let dec = match guard(|| dec_poll_bytes(fam, &frame)) {
            Ok((Drive::Done(Ok(ok)), _)) => ok.pkt,
            _ => {
                // C16 reports acceptance differences
                c.inconclusive("valid filter not accepted inside SUBSCRIBE (see C16)");
                return;
            }
        };
        let f2: Option<TopicFilter> = match &dec {
            Pkt::V3(mqtt_proto::v3::Packet::Subscribe(sb)) => sb.topics.first().map(|x| x.0.clone()),
            Pkt::V5(mqtt_proto::v5::Packet::Subscribe(sb)) => sb.topics.first().map(|x| x.0.clone()),
            _ => None,
        };
        match f2 {
            Some(f2) => {
                c.count("decoded-filters");
                if f2 != *built || h1(&f2) != h1(built) || h2(&f2) != h2(built) || f2.cmp(built) != std::cmp::Ordering::Equal {
                    c.violation("C17:decoded-vs-built", format!("filter {:?} decoded from a v{} SUBSCRIBE differs from the constructed one", s, fam.n()), scase(s));
                }
                c17_filter(c, s, &f2);
            }
            None => c.violation("C17:decoded-missing", "decoded SUBSCRIBE has no filter".to_string(), scase(s)),
        }
    }
}

pub fn c17(ctx: &mut Ctx, layer: &str) {
    let maxsym = match layer {
        "miri" => 2,
        "vg" => 4,
        _ => {
            if ctx.thorough {
                8
            } else {
                7
            }
        }
    };
    let tiny = layer == "miri";
    wl::par(ctx, |w, n, c, r| {
        let mut cnt = 0u64;
        let mut valid = 0u64;
        let mut bucket: Vec<(String, TopicFilter)> = Vec::with_capacity(64);
        let mut local = c.child();
        enumerate(&SIGMA_FILTER, &PREFIXES_FILTER, maxsym, w, n, &mut |s| {
            cnt += 1;
            if !valid_filter(s.as_bytes()) {
                return;
            }
            let f = match TopicFilter::try_from(s.to_string()) {
                Ok(f) => f,
                Err(_) => return, // C16 reports it
            };
            valid += 1;
            local.eval();
            if valid % 97 == 0 {
                local.count(if s.starts_with("$share/") { "valid.shared~" } else { "valid.plain~" });
            }
            c17_filter(&mut local, s, &f);
            if valid % (if tiny { 5 } else { 211 }) == 0 {
                c17_decoded(&mut local, s, &f);
            }
            // all pairs within buckets of 64 (sampled buckets: every 16th valid string joins)
            if valid % 16 == 0 {
                bucket.push((s.to_string(), f));
                if bucket.len() == 64 {
                    c17_pairs(&mut local, &bucket);
                    bucket.clear();
                    local.count("pair-buckets");
                }
            }
        });
        if !bucket.is_empty() {
            c17_pairs(&mut local, &bucket);
        }
        local.distinct_direct += valid;
        local.countn("enumerated", cnt);
        local.countn("valid-filters", valid);
        c.merge(local);
        // random long valid filters
        if !tiny {
            for _ in 0..(if layer == "vg" { 3 } else { 40 }) {
                let shared = r.bool();
                let mut s = String::new();
                if shared {
                    s.push_str("$share/");
                    for _ in 0..r.range(1, 6) {
                        s.push(*r.pick(&['g', 'é', '𝄞', '$', 'x']));
                    }
                    s.push('/');
                }
                let target = *r.pick(&[10usize, 300, 65_535, 65_000, 70]);
                while s.len() + 8 < target {
                    match r.below(8) {
                        0 => s.push_str("/+/"),
                        1 => s.push('/'),
                        2 => s.push('é'),
                        _ => s.push('k'),
                    }
                }
                if r.bool() {
                    s.push_str("/#");
                } else {
                    s.push('z');
                }
                if !valid_filter(s.as_bytes()) {
                    continue;
                }
                c.eval();
                c.distinct(fnv_bytes(1, s.as_bytes()));
                c.count("long-valid-filters");
                if let Ok(f) = TopicFilter::try_from(s.clone()) {
                    c17_filter(c, &s, &f);
                    c17_decoded(c, &s, &f);
                }
            }
        }
        if w == 0 {
            for s in ["$share/g/a", "$share/é/+/#", "$share/𝄞𝄞/ /a", "$share/g//", "$share/g//a", "a", "$share", "$sharex/g/a", "$SYS/a"] {
                if let Ok(f) = TopicFilter::try_from(s.to_string()) {
                    c.sample(|| format!("{:?} -> shared_info {:?}", s, f.shared_info()));
                }
            }
        }
    });
}

// ------------------------------------------------------------------------------------------
// C18

#[inline]
fn c18_string(c: &mut Ctx, s: &str, deep: bool) {
    let want_valid = valid_topic_name(s.as_bytes());
    let inv = TopicName::is_invalid(s);
    if inv == want_valid {
        c.violation(
            format!("C18:is_invalid:{}", if s.len() > 65_535 { "length" } else if s.contains('\0') { "nul" } else { "wildcard" }),
            format!("TopicName::is_invalid({:?}) = {}, the rule says {}", short_s(s), inv, if want_valid { "valid" } else { "invalid" }),
            scase(s),
        );
    }
    if !deep {
        return;
    }
    // the same text through the filter validator first (see c16_string)
    let _ = TopicFilter::try_from(s.to_string());
    match TopicName::try_from(s.to_string()) {
        Ok(t) => {
            if !want_valid {
                c.violation("C18:try_from-accepts", format!("try_from({:?}) succeeded", short_s(s)), scase(s));
            }
            if &*t != s || t.to_string() != s {
                c.violation("C18:text", format!("deref/to_string of the name built from {:?} give {:?}", short_s(s), short_s(&t)), scase(s));
            }
            if t.is_shared() != s.starts_with("$share/") {
                c.violation("C18:is_shared", format!("is_shared() = {} for {:?}", t.is_shared(), short_s(s)), scase(s));
            }
            if t.is_sys() != s.starts_with("$SYS/") {
                c.violation("C18:is_sys", format!("is_sys() = {} for {:?}", t.is_sys(), short_s(s)), scase(s));
            }
        }
        Err(e) => {
            let ok = matches!(&e, mqtt_proto::Error::InvalidTopicName(x) if x == s);
            if want_valid || !ok {
                c.violation("C18:try_from-error", format!("try_from({:?}) = Err({:?})", short_s(s), short_s(&format!("{:?}", e))), scase(s));
            }
        }
    }
}

fn short_s(s: &str) -> String {
    if s.len() > 80 {
        format!("{}…({} bytes)", s.chars().take(40).collect::<String>(), s.len())
    } else {
        s.to_string()
    }
}

/// The five packet routes: PUBLISH (v3, v5), will topic (v3, v5), v5 response topic.
fn c18_packet_routes(c: &mut Ctx, s: &str) {
    if s.len() > 65_535 {
        return;
    }
    let want_valid = valid_topic_name(s.as_bytes());
    let b = s.as_bytes().to_vec();
    let connect = |fam: Fam, will: RWill| RP::Connect {
        name: b"MQTT".to_vec(),
        level: if fam == Fam::V5 { 5 } else { 4 },
        clean: true,
        keep_alive: 1,
        client_id: b"c".to_vec(),
        will: Some(will),
        username: None,
        password: None,
        props: Vec::new(),
    };
    let routes: Vec<(&str, Fam, RP, RefErr)> = vec![
        ("publish", Fam::V3, RP::Publish { dup: false, qos: 0, retain: false, topic: b.clone(), pid: None, props: Vec::new(), payload: b"p".to_vec() }, RefErr::TopicName(b.clone())),
        ("publish", Fam::V5, RP::Publish { dup: false, qos: 1, retain: false, topic: b.clone(), pid: Some(2), props: Vec::new(), payload: b"p".to_vec() }, RefErr::TopicName(b.clone())),
        ("will", Fam::V3, connect(Fam::V3, RWill { qos: 1, retain: false, topic: b.clone(), payload: b"w".to_vec(), props: Vec::new() }), RefErr::TopicName(b.clone())),
        ("will", Fam::V5, connect(Fam::V5, RWill { qos: 0, retain: true, topic: b.clone(), payload: b"w".to_vec(), props: Vec::new() }), RefErr::TopicName(b.clone())),
        (
            "publish-with-alias",
            Fam::V5,
            RP::Publish { dup: true, qos: 2, retain: true, topic: b.clone(), pid: Some(77), props: vec![(0x23, PV::U16(3)), (0x02, PV::U32(60)), (0x26, PV::Pair(b"k".to_vec(), b"v".to_vec()))], payload: b"xyz".to_vec() },
            RefErr::TopicName(b.clone()),
        ),
        (
            "will-with-properties",
            Fam::V5,
            connect(Fam::V5, RWill { qos: 2, retain: true, topic: b.clone(), payload: b"w".to_vec(), props: vec![(0x18, PV::U32(5)), (0x03, PV::Str(b"ct".to_vec()))] }),
            RefErr::TopicName(b.clone()),
        ),
        (
            "response-topic",
            Fam::V5,
            RP::Publish { dup: false, qos: 0, retain: false, topic: b"t".to_vec(), pid: None, props: vec![(0x08, PV::Str(b.clone()))], payload: Vec::new() },
            RefErr::ResponseTopic,
        ),
        (
            "will-response-topic",
            Fam::V5,
            connect(Fam::V5, RWill { qos: 0, retain: false, topic: b"t".to_vec(), payload: Vec::new(), props: vec![(0x08, PV::Str(b.clone()))] }),
            RefErr::ResponseTopic,
        ),
    ];
    for (route, fam, rp, want_err) in routes {
        c.eval();
        c.count(&format!("route.{}.v{}", route, fam.n()));
        let frame = ref_encode(fam, &rp, &Spelling::default()).bytes();
        let case = || Case::new("string", fam.n(), s.as_bytes()).p("route", route);
        match guard(|| dec_poll_bytes(fam, &frame)) {
            Ok((Drive::Done(Ok(ok)), _)) => {
                if !want_valid || ok.pkt.to_ref().canon() != rp.canon() {
                    c.violation(format!("C18:packet:v{}:{}:accepted", fam.n(), route), format!("topic {:?} as {} accepted (valid per rule: {})", short_s(s), route, want_valid), case());
                }
            }
            Ok((Drive::Done(Err(e)), _)) => {
                if want_valid || e.to_ref().as_ref() != Some(&want_err) {
                    c.violation(format!("C18:packet:v{}:{}:rejected", fam.n(), route), format!("topic {:?} as {} rejected with {:?} (valid per rule: {})", short_s(s), route, e, want_valid), case());
                }
            }
            o => c.violation(format!("C18:packet:v{}:crash", fam.n()), format!("{:?}", o.err()), case()),
        }
    }
}

pub fn c18(ctx: &mut Ctx, layer: &str) {
    let maxsym = match layer {
        "miri" => 2,
        "vg" => 4,
        _ => {
            if ctx.thorough {
                8
            } else {
                7
            }
        }
    };
    let route_every: u64 = match layer {
        "miri" => 30,
        "vg" => 300,
        _ => 61,
    };
    wl::par(ctx, |w, n, c, _r| {
        let mut cnt = 0u64;
        let mut local = c.child();
        let res = guard(|| {
            enumerate(&SIGMA_NAME, &PREFIXES_NAME, maxsym, w, n, &mut |s| {
                cnt += 1;
                c18_string(&mut local, s, cnt % 5 == 0 || s.len() <= 6);
                if cnt % route_every == 0 {
                    c18_packet_routes(&mut local, s);
                }
                if cnt % 128 == 0 {
                    local.countn(if valid_topic_name(s.as_bytes()) { "class~.valid" } else { "class~.invalid" }, 128);
                }
            });
        });
        if let Err(pm) = res {
            c.violation(format!("C18:panic:{}", panic_sig(&pm)), format!("topic name validation panicked: {}", pm), Case::new("string", 0, &[]));
        }
        local.evals(cnt);
        local.distinct_direct += cnt;
        c.merge(local);
        {
            let maxlen = if matches!(layer, "miri" | "vg") { 9 } else if c.thorough { 400 } else { 150 };
            let mut cnt2 = 0u64;
            let mut local = c.child();
            let res = guard(|| {
                segment_sweep(&SWEEP_NAME, maxlen, w, n, &mut |s| {
                    cnt2 += 1;
                    c18_string(&mut local, s, cnt2 % 97 == 0);
                    if cnt2 % 4099 == 0 {
                        c18_packet_routes(&mut local, s);
                    }
                });
            });
            if let Err(pm) = res {
                c.violation(format!("C18:panic:{}", panic_sig(&pm)), format!("topic name validation panicked in the segment-length sweep: {}", pm), Case::new("string", 0, &[]));
            }
            local.evals(cnt2);
            local.distinct_direct += cnt2;
            local.countn("segment-sweep", cnt2);
            c.merge(local);
        }
        if w == 1 % n {
            let mut local = c.child();
            let res = guard(|| {
                lookalike_strings(matches!(layer, "miri" | "vg"), &mut |s| {
                    local.eval();
                    local.distinct(fnv_bytes(18, s.as_bytes()));
                    local.count("code-point-lookalikes");
                    c18_string(&mut local, s, true);
                    c18_packet_routes(&mut local, s);
                });
            });
            if let Err(pm) = res {
                c.violation(format!("C18:panic:{}", panic_sig(&pm)), format!("topic name validation / PUBLISH decoding panicked on a look-alike character: {}", pm), Case::new("string", 0, &[]));
            }
            c.merge(local);
        }
        if w == 0 {
            for len in [65_534usize, 65_535, 65_536, 65_537] {
                for tail in ["", "+", "#", "\0", "/a", "é"] {
                    let mut s = String::with_capacity(len + 4);
                    s.push_str(if len % 2 == 0 { "$SYS/" } else { "$share/" });
                    while s.len() + tail.len() < len {
                        s.push('x');
                    }
                    s.push_str(tail);
                    while s.len() < len {
                        s.push('y');
                    }
                    c.eval();
                    c.count("long-strings");
                    c18_string(c, &s, true);
                    c18_packet_routes(c, &s);
                }
            }
            for s in ["a/b", "a+", "#", "$SYS/x", "$sys/x", "$share/x", "", "a\0", "/"] {
                c.sample(|| format!("{:?} -> lib says {}", s, if TopicName::is_invalid(s) { "invalid" } else { "valid" }));
                c18_string(c, s, true);
                c18_packet_routes(c, s);
            }
        }
    });
}

pub fn replay(ctx: &mut Ctx, case: &Case) {
    let s = match std::str::from_utf8(&case.bytes) {
        Ok(s) => s.to_string(),
        Err(_) => return,
    };
    match ctx.prop {
        "C16" => {
            c16_string(ctx, &s, true);
            c16_packet_route(ctx, &s);
        }
        "C17" => {
            if let Ok(f) = TopicFilter::try_from(s.clone()) {
                c17_filter(ctx, &s, &f);
                c17_decoded(ctx, &s, &f);
                if let Some(o) = case.get("other").and_then(crate::ev::unhex).and_then(|b| String::from_utf8(b).ok()) {
                    if let Ok(g) = TopicFilter::try_from(o.clone()) {
                        c17_pairs(ctx, &[(s.clone(), f), (o, g)]);
                    }
                }
            }
        }
        "C18" => {
            c18_string(ctx, &s, true);
            c18_packet_routes(ctx, &s);
        }
        _ => {}
    }
}

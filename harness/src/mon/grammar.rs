//! C04 (acceptance = grammar, accepted fields = spec fields) and C20 (documented error per
//! catalogue malformation): differential monitors against the reference decoder.

use crate::ev::{guard, hex_short, panic_sig, Case, Ctx};
use crate::fe::*;
use crate::gen;
use crate::refdec::{ref_decode, split_frame, Split};
use crate::refenc::{prop_value_bytes, ref_encode, Frame, Role, Seg, Spelling};
use crate::refm::*;
use crate::rng::{fnv_bytes, Rng};
use crate::wl;

fn fcase(fam: Fam, b: &[u8]) -> Case {
    Case::new("frame", fam.n(), b)
}

fn tn(ctl: u8) -> &'static str {
    TYPE_NAMES[(ctl >> 4) as usize]
}

// ------------------------------------------------------------------------------------------
// C20 catalogue: operators on segmented frames

#[derive(Clone, Debug)]
pub struct Malformed {
    pub row: &'static str,
    pub bytes: Vec<u8>,
    pub expect: RefErr,
    /// how the lenient (blocking / async) decoders are constrained for this row
    pub lenient: Lenient,
}

#[derive(Clone, Copy, Debug, PartialEq, Eq)]
pub enum Lenient {
    /// same error as the poll decoder
    Same,
    /// blocking: Ok(None); async: is_eof()
    Incomplete,
    /// not constrained by C20
    Free,
}

fn lp(b: &[u8]) -> Vec<u8> {
    let mut v = vec![(b.len() >> 8) as u8, b.len() as u8];
    v.extend_from_slice(b);
    v
}

const BAD_UTF8: &[&[u8]] = &[b"\xff", b"a\x80", b"\xc0\xaf", b"\xed\xa0\x80", b"\xe2\x82", b"ok\xf4\x90\x80\x80"];
const BAD_TOPICS: &[&[u8]] = &[b"a+", b"#", b"a/\0", b"+/x", b"x/#", b"\0"];
const BAD_FILTERS: &[&[u8]] = &[
    b"a/#/b", b"a#", b"#a", b"a+", b"+a", b"a/+b", b"", b"$share/g", b"$share//a", b"$share/g+/a", b"$share/g/", b"a\0b", b"a/b+/c", b"##", b"$share/#/a",
];

fn ctx_of(f: &Frame, scope: u8) -> u8 {
    if scope == 2 {
        CTX_WILL
    } else {
        f.segs[0].bytes[0] >> 4
    }
}

fn example_value(r: &mut Rng, id: u8) -> Vec<u8> {
    let mut b = vec![id];
    b.extend_from_slice(&prop_value_bytes(&gen::prop_value(r, id, false)));
    b
}

/// Apply every applicable catalogue operator at every applicable position of `host`.
pub fn malformations(r: &mut Rng, fam: Fam, host: &Frame, out: &mut Vec<Malformed>) {
    let v5 = fam == Fam::V5;
    let ctl = host.segs[0].bytes[0];
    let typ = ctl >> 4;
    let mut push = |row: &'static str, f: Frame, expect: RefErr, lenient: Lenient| {
        out.push(Malformed { row, bytes: f.bytes(), expect, lenient });
    };
    let edit = |i: usize, bytes: Vec<u8>| {
        let mut f = host.clone();
        f.segs[i].bytes = bytes;
        f.reframe();
        f
    };
    // --- header rows
    {
        let mut f = host.clone();
        f.segs[0].bytes[0] = ctl & 0x0f;
        push("hdr-type0", f, RefErr::Header, Lenient::Same);
        if !v5 {
            let mut f = host.clone();
            f.segs[0].bytes[0] = 0xF0;
            push("hdr-type15-v3", f, RefErr::Header, Lenient::Same);
        }
        if typ != 3 {
            let good = ctl & 0x0f;
            for fl in 0..16u8 {
                if fl != good {
                    let mut f = host.clone();
                    f.segs[0].bytes[0] = (ctl & 0xf0) | fl;
                    push("hdr-flags", f, RefErr::Header, Lenient::Same);
                }
            }
        } else {
            let mut f = host.clone();
            f.segs[0].bytes[0] = ctl | 0b110;
            push("publish-qos3", f, RefErr::Qos(3), Lenient::Same);
        }
    }
    // --- over-long variable byte integers
    {
        let mut f = host.clone();
        let pos = f.positions(|s| s.role == Role::RemLen)[0];
        f.segs[pos].bytes = vec![0x80 | r.below(128) as u8, 0x80, 0x80, 0x80 | r.below(128) as u8, 0x01];
        push("varint-5bytes-remlen", f, RefErr::VarInt, Lenient::Same);
        for i in host.positions(|s| s.role == Role::PropLen) {
            let mut f = host.clone();
            f.segs[i].bytes = vec![0xff, 0xff, 0xff, 0xff, 0x01];
            f.fix_remlen(0);
            push("varint-5bytes-proplen", f, RefErr::VarInt, Lenient::Same);
        }
        for i in host.positions(|s| matches!(s.role, Role::Prop { id: 0x0B, .. })) {
            push("varint-5bytes-subid", edit(i, vec![0x0B, 0x81, 0x80, 0x80, 0x80, 0x01]), RefErr::VarInt, Lenient::Same);
        }
    }
    // --- packet identifier 0
    for i in host.positions(|s| s.role == Role::Pid) {
        push("pid-zero", edit(i, vec![0, 0]), RefErr::ZeroPid, Lenient::Same);
    }
    // --- QoS-like bytes
    if !v5 {
        for i in host.positions(|s| s.role == Role::Opt) {
            let n = *r.pick(&[3u8, 4, 0x80, 0xff, 0x40]);
            push("v3-subscribe-qos", edit(i, vec![n]), RefErr::Qos(n), Lenient::Same);
        }
        for i in host.positions(|s| s.role == Role::SubCode) {
            let n = *r.pick(&[3u8, 4, 0x7f, 0x81, 0xff]);
            push("v3-suback-code", edit(i, vec![n]), RefErr::Qos(n), Lenient::Same);
        }
    }
    for i in host.positions(|s| s.role == Role::ConnFlags) {
        let fl = host.segs[i].bytes[0];
        push("connect-flags-bit0", edit(i, vec![fl | 1]), RefErr::ConnectFlags(fl | 1), Lenient::Same);
        if fl & 0b100 != 0 {
            push("will-qos3", edit(i, vec![fl | 0b11000]), RefErr::Qos(3), Lenient::Same);
        } else {
            for q in [0b01000u8, 0b10000, 0b11000] {
                push("will-qos-without-will", edit(i, vec![fl | q]), RefErr::ConnectFlags(fl | q), Lenient::Same);
            }
        }
    }
    for i in host.positions(|s| s.role == Role::AckFlags) {
        let n = *r.pick(&[2u8, 3, 0x80, 0xff, 0x10]);
        push("connack-flags", edit(i, vec![n]), RefErr::ConnackFlags(n), Lenient::Same);
    }
    // --- return / reason codes
    for i in host.positions(|s| s.role == Role::Code) {
        if !v5 {
            let n = *r.pick(&[6u8, 7, 0x80, 0xff]);
            push("v3-connack-code", edit(i, vec![n]), RefErr::ConnectReturnCode(n), Lenient::Same);
        } else {
            let set = v5_codes(typ);
            for n in 0..=255u8 {
                if !set.contains(&n) {
                    push("v5-reason-code", edit(i, vec![n]), RefErr::ReasonCode(typ, n), Lenient::Same);
                }
            }
        }
    }
    if v5 {
        let subcodes = host.positions(|s| s.role == Role::SubCode);
        if let Some(&i) = subcodes.get(r.below(subcodes.len().max(1) as u64) as usize) {
            let set = v5_codes(typ);
            for n in 0..=255u8 {
                if !set.contains(&n) {
                    push("v5-reason-code", edit(i, vec![n]), RefErr::ReasonCode(typ, n), Lenient::Same);
                }
            }
        }
        for i in host.positions(|s| s.role == Role::Opt) {
            let o = host.segs[i].bytes[0];
            for n in [o | 0x40, o | 0x80, o | 0xC0, o | 0b11, o | 0x30] {
                push("subscription-option", edit(i, vec![n]), RefErr::SubOpt(n), Lenient::Same);
            }
        }
    }
    // --- strings
    for i in host.positions(|s| matches!(s.role, Role::Str(_) | Role::ProtoName)) {
        let bad = *r.pick(BAD_UTF8);
        push("bad-utf8-field", edit(i, lp(bad)), RefErr::BadString, Lenient::Same);
    }
    for i in host.positions(|s| matches!(s.role, Role::Prop { kind: PK::Str, .. } | Role::Prop { kind: PK::Pair, .. })) {
        let bad = *r.pick(BAD_UTF8);
        if let Role::Prop { id, kind } = host.segs[i].role.clone() {
            let mut b = vec![id];
            if kind == PK::Pair {
                match r.below(3) {
                    0 => {
                        b.extend_from_slice(&lp(bad));
                        b.extend_from_slice(&lp(b"v"));
                    }
                    1 => {
                        b.extend_from_slice(&lp(b"k"));
                        b.extend_from_slice(&lp(bad));
                    }
                    _ => {
                        // a character straddling the name/value boundary
                        let (ch, cut) = *r.pick(crate::mon::bytes::STRADDLE);
                        let mut name = b"k".to_vec();
                        name.extend_from_slice(&ch[..cut]);
                        let mut value = ch[cut..].to_vec();
                        value.extend_from_slice(b"v");
                        b.extend_from_slice(&lp(&name));
                        b.extend_from_slice(&lp(&value));
                    }
                }
            } else {
                b.extend_from_slice(&lp(bad));
            }
            push("bad-utf8-property", edit(i, b), RefErr::BadString, Lenient::Same);
        }
    }
    for i in host.positions(|s| matches!(s.role, Role::Str("topic") | Role::Str("will_topic"))) {
        let bad = *r.pick(BAD_TOPICS);
        push("topic-name-wildcard", edit(i, lp(bad)), RefErr::TopicName(bad.to_vec()), Lenient::Same);
        let long = gen::long_invalid_filter(r);
        push("topic-name-wildcard", edit(i, lp(&long)), RefErr::TopicName(long.clone()), Lenient::Same);
    }
    for i in host.positions(|s| matches!(s.role, Role::Prop { id: 0x08, .. })) {
        let bad = *r.pick(BAD_TOPICS);
        let mut b = vec![0x08];
        b.extend_from_slice(&lp(bad));
        push("response-topic", edit(i, b), RefErr::ResponseTopic, Lenient::Same);
    }
    for i in host.positions(|s| s.role == Role::Str("filter")) {
        // only the first filter of the packet can be the *single* malformation reported
        for bad in BAD_FILTERS {
            push("invalid-filter", edit(i, lp(bad)), RefErr::TopicFilter(bad.to_vec()), Lenient::Same);
        }
        let long = gen::long_invalid_filter(r);
        push("invalid-filter", edit(i, lp(&long)), RefErr::TopicFilter(long.clone()), Lenient::Same);
        break;
    }
    // --- protocol name / level
    let names = host.positions(|s| s.role == Role::ProtoName);
    if let Some(&i) = names.first() {
        let lvl = host.positions(|s| s.role == Role::ProtoLevel)[0];
        let variants: [(&[u8], u8); 9] = [
            (b"MQTT", 3),
            (b"MQTT", 6),
            (b"MQTT", 0),
            (b"MQIsdp", 4),
            (b"MQIsdp", 5),
            (b"mqtt", 4),
            (b"MQT", 4),
            (b"", 4),
            (b"MQTTT", 5),
        ];
        for (n, l) in variants {
            let mut f = host.clone();
            f.segs[i].bytes = lp(n);
            f.segs[lvl].bytes = vec![l];
            f.reframe();
            push("unknown-protocol", f, RefErr::Protocol(n.to_vec(), l), Lenient::Same);
        }
        let others: &[(&[u8], u8)] = if v5 { &[(b"MQIsdp", 3), (b"MQTT", 4)] } else { &[(b"MQTT", 5)] };
        for (n, l) in others {
            let mut f = host.clone();
            f.segs[i].bytes = lp(n);
            f.segs[lvl].bytes = vec![*l];
            f.reframe();
            push("other-family-protocol", f, RefErr::UnexpectedProtocol(*l), Lenient::Same);
        }
    }
    // --- empty subscription list
    if typ == 8 || typ == 10 {
        let mut f = host.clone();
        f.segs.retain(|s| !matches!(s.role, Role::Str("filter") | Role::Opt));
        f.reframe();
        push("empty-subscription", f, RefErr::EmptySubscription, Lenient::Same);
    }
    // --- properties
    if v5 {
        for pl in host.positions(|s| s.role == Role::PropLen) {
            let scope = host.segs[pl].scope;
            let ctx = ctx_of(host, scope);
            let members = host.positions(|s| s.scope == scope && matches!(s.role, Role::Prop { .. }));
            let ins_at = |k: usize| if members.is_empty() { pl + 1 } else if k >= members.len() { members[members.len() - 1] + 1 } else { members[k] };
            // unknown identifier
            for slot in [0usize, members.len() / 2, members.len()] {
                let id = *r.pick(&[0x00u8, 0x04, 0x05, 0x0A, 0x14, 0x1B, 0x20, 0x2B, 0x7F, 0xFF]);
                let mut f = host.clone();
                f.segs.insert(ins_at(slot), Seg { role: Role::Prop { id, kind: PK::Byte }, scope, bytes: vec![id, 0] });
                f.reframe();
                push("unknown-property-id", f, RefErr::PropId(id), Lenient::Same);
            }
            // duplicated property
            for &m in &members {
                if let Role::Prop { id, .. } = host.segs[m].role {
                    if id == USER_PROPERTY || (id == 0x0B && ctx == 3) {
                        continue;
                    }
                    let mut f = host.clone();
                    let copy = example_value(r, id);
                    let at = if r.bool() { m + 1 } else { ins_at(members.len()) };
                    f.segs.insert(at, Seg { role: host.segs[m].role.clone(), scope, bytes: copy });
                    f.reframe();
                    push("duplicated-property", f, RefErr::DupProp(id), Lenient::Same);
                }
            }
            // property of another packet type
            let foreign: Vec<u8> = PROP_TABLE.iter().filter(|p| !p.allowed.contains(&ctx)).map(|p| p.id).collect();
            for _ in 0..2 {
                let id = *r.pick(&foreign);
                let slot = r.below(members.len() as u64 + 1) as usize;
                let mut f = host.clone();
                f.segs.insert(ins_at(slot), Seg { role: Role::Prop { id, kind: prop_spec(id).unwrap().kind }, scope, bytes: example_value(r, id) });
                f.reframe();
                let e = if ctx == CTX_WILL { RefErr::WillPropNotAllowed(id) } else { RefErr::PropNotAllowed(ctx, id) };
                push(if ctx == CTX_WILL { "foreign-property-in-will" } else { "foreign-property" }, f, e, Lenient::Same);
            }
            // boolean / Maximum QoS property with value > 1
            for &m in &members {
                if let Role::Prop { id, kind: PK::Byte } = host.segs[m].role {
                    if byte_prop_is_01(id) {
                        let n = *r.pick(&[2u8, 3, 0x80, 0xff]);
                        push("byte-property-value", edit(m, vec![id, n]), RefErr::ByteProp(id, n), Lenient::Same);
                    }
                }
            }
            // property length ending strictly inside a property
            if !members.is_empty() {
                let k = r.below(members.len() as u64) as usize;
                let before: usize = members[..k].iter().map(|i| host.segs[*i].bytes.len()).sum();
                let plen = host.segs[members[k]].bytes.len();
                if plen >= 2 {
                    let l = before + r.range(1, plen - 1);
                    let mut f = host.clone();
                    f.segs[pl].bytes = varint_enc(l as u64);
                    f.fix_remlen(0);
                    push("property-length-inside-property", f, RefErr::PropLen(l as u32), Lenient::Same);
                }
            }
            // payload format indicator 1 with a non-UTF-8 payload
            let has_fmt1 = members.iter().any(|m| host.segs[*m].bytes == [0x01, 0x01]);
            if has_fmt1 {
                let target = if scope == 2 { Role::Bin("will_payload") } else { Role::Payload };
                for i in host.positions(|s| s.role == target) {
                    let bad = *r.pick(BAD_UTF8);
                    let bytes = if scope == 2 { lp(bad) } else { bad.to_vec() };
                    push("payload-format", edit(i, bytes), RefErr::PayloadFormat, Lenient::Same);
                }
            }
        }
    }
    // --- remaining length, case D: zero for a type that needs a body
    let needs_body = !matches!(typ, 12 | 13) && !(typ == 14) && !(typ == 15);
    if needs_body {
        push("remlen-zero-for-body-type", Frame { segs: vec![host.segs[0].clone(), Seg { role: Role::RemLen, scope: 0, bytes: vec![0] }] }, RefErr::RemLen, Lenient::Incomplete);
    }
    // --- case A: an inner length runs past the end of the frame
    {
        let spots = host.positions(|s| matches!(s.role, Role::Str(_) | Role::Bin(_) | Role::ProtoName));
        if let Some(&i) = spots.get(r.below(spots.len().max(1) as u64) as usize) {
            let after: usize = host.segs[i + 1..].iter().map(|s| s.bytes.len()).sum();
            let have = host.segs[i].bytes.len() - 2 + after;
            let want = have + r.range(1, 300);
            if want <= 0xffff {
                let mut f = host.clone();
                f.segs[i].bytes[0] = (want >> 8) as u8;
                f.segs[i].bytes[1] = want as u8;
                // remaining length stays what the frame really holds
                push("inner-length-past-frame", f, RefErr::RemLen, Lenient::Incomplete);
            }
        }
    }
    // --- case C: PUBLISH with QoS>0 and no room for the packet identifier
    if typ == 3 && (ctl >> 1) & 3 != 0 {
        let t = host.positions(|s| s.role == Role::Str("topic"))[0];
        let topic_ok = utf8_ok(&host.segs[t].bytes[2..]);
        if topic_ok {
            for extra in [0usize, 1] {
                let mut f = Frame { segs: host.segs[..=t].to_vec() };
                if extra == 1 {
                    f.segs.push(Seg { role: Role::Pid, scope: 0, bytes: vec![7] });
                }
                f.fix_remlen(0);
                push("publish-no-room-for-pid", f, RefErr::RemLen, Lenient::Same);
            }
        }
    }
    // --- case B: bytes left over inside the frame after a self-delimiting body
    if matches!(typ, 1 | 12 | 13) || (!v5 && matches!(typ, 2 | 4 | 5 | 6 | 7 | 11 | 14)) {
        let mut f = host.clone();
        let k = r.range(1, 5);
        f.segs.push(Seg { role: Role::Payload, scope: 0, bytes: r.bytes(k) });
        f.fix_remlen(0);
        push("leftover-inside-frame", f, RefErr::RemLen, Lenient::Free);
    }
}

pub const ALL_ROWS: &[&str] = &[
    "hdr-type0",
    "hdr-type15-v3",
    "hdr-flags",
    "publish-qos3",
    "varint-5bytes-remlen",
    "varint-5bytes-proplen",
    "varint-5bytes-subid",
    "pid-zero",
    "v3-subscribe-qos",
    "v3-suback-code",
    "connect-flags-bit0",
    "will-qos3",
    "will-qos-without-will",
    "connack-flags",
    "v3-connack-code",
    "v5-reason-code",
    "subscription-option",
    "bad-utf8-field",
    "bad-utf8-property",
    "topic-name-wildcard",
    "response-topic",
    "invalid-filter",
    "unknown-protocol",
    "other-family-protocol",
    "empty-subscription",
    "unknown-property-id",
    "duplicated-property",
    "foreign-property",
    "foreign-property-in-will",
    "byte-property-value",
    "property-length-inside-property",
    "payload-format",
    "remlen-zero-for-body-type",
    "inner-length-past-frame",
    "publish-no-room-for-pid",
    "leftover-inside-frame",
];

/// Hosts for the catalogue: valid packets under a spelling that spells reason codes out.
pub fn host_frame(r: &mut Rng, fam: Fam, rp: &RP) -> Frame {
    let sp = Spelling { prop_shuffle: if r.bool() { r.next() | 1 } else { 0 }, long_form: r.below(3) as u8, remlen_width: 0, proplen_width: 0 };
    ref_encode(fam, rp, &sp)
}

/// Extra hosts that guarantee the payload-format rows have something to work on.
pub fn special_hosts(r: &mut Rng, fam: Fam) -> Vec<RP> {
    if fam != Fam::V5 {
        return Vec::new();
    }
    vec![
        RP::Publish { dup: false, qos: 1, retain: false, topic: b"a/b".to_vec(), pid: Some(5), props: vec![(0x01, PV::Byte(1)), (0x08, PV::Str(b"r/t".to_vec()))], payload: b"text".to_vec() },
        RP::Connect {
            name: b"MQTT".to_vec(),
            level: 5,
            clean: true,
            keep_alive: 9,
            client_id: gen::text(r, false),
            will: Some(RWill { qos: 1, retain: false, topic: b"w/t".to_vec(), payload: b"bye".to_vec(), props: vec![(0x01, PV::Byte(1)), (0x08, PV::Str(b"r".to_vec())), (0x18, PV::U32(5))] }),
            username: Some(b"u".to_vec()),
            password: Some(b"p".to_vec()),
            props: vec![(0x11, PV::U32(1)), (0x17, PV::Byte(1)), (0x19, PV::Byte(0))],
        },
        RP::Connack { sp: false, code: 0, props: vec![(0x24, PV::Byte(1)), (0x25, PV::Byte(1)), (0x28, PV::Byte(0)), (0x29, PV::Byte(1)), (0x2A, PV::Byte(1)), (0x12, PV::Str(b"id".to_vec()))] },
        RP::Subscribe { pid: 2, props: vec![(0x0B, PV::Var(300))], topics: vec![(b"a/+".to_vec(), 1), (b"#".to_vec(), 0x2c)] },
        RP::Publish { dup: false, qos: 0, retain: true, topic: b"t".to_vec(), pid: None, props: vec![(0x0B, PV::Var(77)), (0x23, PV::U16(4))], payload: vec![1, 2, 3] },
    ]
}

fn lenient_ok(lenient: Lenient, pol: &Er, blk: &DecOut, asy: &Result<Pkt, Er>) -> Option<String> {
    match lenient {
        Lenient::Free => None,
        Lenient::Same => {
            if *blk != DecOut::Err(pol.clone()) {
                return Some(format!("blocking decoder returned {:?}", blk_short(blk)));
            }
            match asy {
                Err(e) if e == pol => None,
                other => Some(format!("async decoder returned {:?}", other.as_ref().map(crate::mon::valid::short))),
            }
        }
        Lenient::Incomplete => {
            if *blk != DecOut::Incomplete {
                return Some(format!("blocking decoder returned {:?} (expected Ok(None))", blk_short(blk)));
            }
            match asy {
                Err(e) if e.is_eof() => None,
                other => Some(format!("async decoder returned {:?} (expected an is_eof() error)", other.as_ref().map(crate::mon::valid::short))),
            }
        }
    }
}

fn blk_short(o: &DecOut) -> String {
    match o {
        DecOut::Pkt(p) => crate::mon::valid::short(p),
        o => format!("{:?}", o),
    }
}

pub fn c20_one(c: &mut Ctx, fam: Fam, m: &Malformed) {
    c.eval();
    let f = fam.n();
    let b = &m.bytes;
    crate::alloc::set_current(b, f, 5);
    let t = tn(b[0]);
    // harness consistency: the reference decoder must classify the frame the way the operator declares
    match ref_decode(fam, b) {
        Some(RefOut::Reject(e)) if e == m.expect => {}
        other => {
            c.count("dropped.operator-vs-reference");
            c.count(&format!("dropped.{}", m.row));
            if c.hist.get("dropped.operator-vs-reference").copied().unwrap_or(0) <= 3 {
                c.sample(|| format!("DROPPED {} {}: reference says {:?}, operator says {:?}", m.row, hex_short(b), other, m.expect));
            }
            return;
        }
    }
    c.count(&format!("row.{}", m.row));
    c.count(&format!("cell.{}.v{}.{}", m.row, f, t));
    c.distinct(fnv_bytes(f as u64, b));
    let case = || fcase(fam, b).p("row", m.row).p("expect", format!("{:?}", m.expect));
    let pol = match guard(|| dec_poll_bytes(fam, b)) {
        Err(p) => {
            c.violation(format!("C20:v{}:{}:{}:poll-panic:{}", f, m.row, t, panic_sig(&p)), format!("poll decoder panicked: {}", p), case());
            return;
        }
        Ok((Drive::Stuck(e), _)) => {
            c.violation(format!("C20:v{}:{}:{}:poll-stuck", f, m.row, t), format!("poll decoder did not complete: {:?}", e), case());
            return;
        }
        Ok((Drive::Done(v), _)) => v,
    };
    let pe = match pol {
        Ok(ok) => {
            c.violation(
                format!("C20:v{}:{}:{}:poll-accepted", f, m.row, t),
                format!("poll decoder accepted a malformed frame ({}): {}", m.row, crate::mon::valid::short(&ok.pkt)),
                case(),
            );
            return;
        }
        Err(e) => e,
    };
    if pe.to_ref().as_ref() != Some(&m.expect) {
        c.violation(
            format!("C20:v{}:{}:{}:poll-error:{}", f, m.row, t, pe.class()),
            format!("poll decoder returned {:?}, documented error is {:?}", pe, m.expect),
            case(),
        );
        return;
    }
    // lenient front-ends
    let blk = guard(|| dec_block(fam, b));
    let asy = guard(|| dec_async_bytes(fam, b));
    match (blk, asy) {
        (Ok(blk), Ok((Drive::Done(asy), _))) => {
            if let Some(msg) = lenient_ok(m.lenient, &pe, &blk, &asy) {
                c.violation(format!("C20:v{}:{}:{}:lenient-front-end", f, m.row, t), format!("poll decoder returned {:?}; {}", pe, msg), case());
            }
        }
        (b2, a2) => c.violation(
            format!("C20:v{}:{}:{}:front-end-crash", f, m.row, t),
            format!("blocking/async decoder panicked or stalled: {:?} / {:?}", b2.err(), a2.err()),
            case(),
        ),
    }
}

pub fn c20(ctx: &mut Ctx, layer: &str) {
    let n_hosts: usize = match layer {
        "miri" => if ctx.thorough { 480 } else { 48 },
        "vg" => 300,
        _ => {
            if ctx.thorough {
                400_000
            } else {
                60_000
            }
        }
    };
    let g2cap = if matches!(layer, "miri" | "vg") { 2 } else if ctx.thorough { 4096 } else { 64 };
    wl::par(ctx, |w, n, c, r| {
        let mut out = Vec::new();
        for fam in [Fam::V3, Fam::V5] {
            let mut run_host = |c: &mut Ctx, r: &mut Rng, rp: &RP| {
                let host = host_frame(r, fam, rp);
                c.count(&format!("hosts.v{}.{}", fam.n(), TYPE_NAMES[rp.typ() as usize]));
                out.clear();
                malformations(r, fam, &host, &mut out);
                if cfg!(miri) && out.len() > 24 {
                    // under Miri each frame costs ~1 s: a random subset per host
                    r.shuffle(&mut out);
                    out.truncate(24);
                }
                for m in &out {
                    c20_one(c, fam, m);
                }
                if c.samples.len() < 6 {
                    if let Some(m) = out.last() {
                        c.sample(|| format!("v{} {} {} expect {:?}", fam.n(), m.row, hex_short(&m.bytes), m.expect));
                    }
                }
            };
            if w == 0 {
                for rp in special_hosts(r, fam) {
                    run_host(c, r, &rp);
                }
            }
            let mut er = Rng::for_worker(c.seed, "G2", fam.n() as u64);
            let mut idx = 0;
            let mut items = Vec::new();
            gen::enum_g2(&mut er, fam, g2cap, &mut |rp| {
                if idx % n == w {
                    items.push(rp);
                }
                idx += 1;
            });
            if layer == "miri" {
                items.truncate(3);
            }
            for rp in &items {
                run_host(c, r, rp);
            }
            for _ in 0..n_hosts / n + 1 {
                let rp = gen::gen_any(r, fam);
                run_host(c, r, &rp);
            }
        }
    });
    if !matches!(layer, "miri" | "vg") {
        for row in ALL_ROWS {
            if !ctx.hist.contains_key(&format!("row.{}", row)) {
                ctx.harness_error(format!("catalogue row {} was never exercised", row));
            }
        }
        let dropped = ctx.hist.get("dropped.operator-vs-reference").copied().unwrap_or(0);
        if dropped * 1000 > ctx.evaluations {
            ctx.harness_error(format!("{} of {} malformed frames dropped because operator and reference disagree (> 0.1 %)", dropped, ctx.evaluations));
        }
    }
}

// ------------------------------------------------------------------------------------------
// C04

const DONTCARE: [Note; 11] = [Note::L1, Note::L2, Note::L3, Note::L4, Note::L5, Note::L6, Note::L7, Note::L8, Note::L9, Note::S1, Note::A1];

pub fn c04_frame(c: &mut Ctx, fam: Fam, b: &[u8], class: &str) {
    let f = fam.n();
    let refo = match ref_decode(fam, b) {
        Some(o) => o,
        None => {
            c.count("skipped.not-one-frame");
            return;
        }
    };
    if let RefOut::Accept(_, notes) = &refo {
        if notes.contains(&Note::NonMinimal) {
            c.count("skipped.non-minimal-varint");
            return;
        }
    }
    if let Split::Frame { minimal: false, .. } = split_frame(b) {
        c.count("skipped.non-minimal-varint");
        return;
    }
    c.eval();
    crate::alloc::set_current(b, f, 5);
    let t = if b.is_empty() { "EMPTY" } else { tn(b[0]) };
    let case = || fcase(fam, b).p("class", class);
    let pol = match guard(|| dec_poll_bytes(fam, b)) {
        Err(p) => {
            c.violation(format!("C04:v{}:{}:panic:{}", f, t, panic_sig(&p)), format!("poll decoder panicked: {}", p), case());
            return;
        }
        Ok((Drive::Stuck(e), _)) => {
            c.violation(format!("C04:v{}:{}:stuck", f, t), format!("poll decoder did not complete: {:?}", e), case());
            return;
        }
        Ok((Drive::Done(v), _)) => v,
    };
    match (&refo, &pol) {
        (RefOut::Accept(want, notes), Ok(ok)) => {
            let dc: Vec<&Note> = notes.iter().filter(|n| DONTCARE.contains(n)).collect();
            if dc.is_empty() {
                c.count(&format!("v{}.{}.well-formed.accepted", f, t));
                if want_nontrivial(want) {
                    c.distinct(fnv_bytes(f as u64, b));
                }
            } else {
                for n in &dc {
                    c.count(&format!("dontcare.{:?}.accepted", n));
                }
            }
            if notes.contains(&Note::S1) {
                return;
            }
            if ok.pkt.to_ref().canon() != want.canon() {
                c.violation(
                    format!("C04:v{}:{}:fields", f, t),
                    format!("accepted packet's fields differ from the specification's reading of {}: got {}", hex_short(b), crate::mon::valid::short(&ok.pkt)),
                    case(),
                );
            }
            c.sample(|| format!("v{} {} accepted {}", f, class, hex_short(b)));
        }
        (RefOut::Accept(_, notes), Err(e)) => {
            let dc: Vec<&Note> = notes.iter().filter(|n| DONTCARE.contains(n)).collect();
            if dc.is_empty() {
                c.violation(
                    format!("C04:v{}:{}:must-accept-rejected:{}", f, t, e.class()),
                    format!("well-formed frame {} rejected with {:?}", hex_short(b), e),
                    case(),
                );
            } else {
                for n in &dc {
                    c.count(&format!("dontcare.{:?}.rejected", n));
                }
            }
        }
        (RefOut::Reject(re), Ok(ok)) => {
            c.violation(
                format!("C04:v{}:{}:must-reject-accepted:{}", f, t, re.class()),
                format!("ill-formed frame {} (rule: {:?}) accepted as {}", hex_short(b), re, crate::mon::valid::short(&ok.pkt)),
                case(),
            );
        }
        (RefOut::Reject(re), Err(_)) => {
            c.count(&format!("v{}.{}.ill-formed.rejected", f, t));
            c.count(&format!("rule.{}", re.class()));
            c.distinct(fnv_bytes(f as u64 ^ 0x55, b));
        }
    }
}

fn want_nontrivial(p: &RP) -> bool {
    !matches!(p, RP::Pingreq | RP::Pingresp)
}

pub const ALL_RULES: &[&str] = &[
    "Header", "Qos", "ZeroPid", "ConnectFlags", "ConnackFlags", "ConnectReturnCode", "ReasonCode", "SubOpt", "BadString", "TopicName", "ResponseTopic", "TopicFilter", "Protocol",
    "UnexpectedProtocol", "EmptySubscription", "PropId", "DupProp", "PropNotAllowed", "WillPropNotAllowed", "ByteProp", "PropLen", "PayloadFormat", "RemLen",
];

/// A property-level malformation (and its well-formed twin) placed behind a filler property of
/// *every* length: whatever an implementation keeps per property in a narrow integer or a block-sized
/// table (offsets, seen-masks, remaining counts) is driven through every value up to 65,535.
fn c04_prefix_sweep(c: &mut Ctx, w: usize, nw: usize, layer: &str) {
    let tiny = matches!(layer, "miri" | "vg");
    let max_l: usize = if tiny { 300 } else { 65_532 };
    let fam = Fam::V5;
    let mut k = 0usize;
    for l in 0..=max_l {
        // quick: every short filler, every filler that puts the next property at offset 255/0 (mod 256), the last 2600
        let off = 3 + l;
        let dense = c.thorough || l < 2048 || l + 2600 > max_l || matches!(off % 256, 255 | 0);
        if !dense {
            continue;
        }
        k += 1;
        if k % nw != w {
            continue;
        }
        let filler = (0x1Fu8, PV::Str(vec![b'f'; l]));
        for variant in 0..5u8 {
            // 0: well-formed; 1: duplicate (adjacent); 2: duplicate (not adjacent); 3: boolean property = 2; 4: property not allowed here
            let mut props: Props = vec![filler.clone(), (0x13, PV::U16(10))];
            match variant {
                0 => props.push((0x21, PV::U16(5))),
                1 => props.push((0x13, PV::U16(11))),
                2 => {
                    props.push((0x21, PV::U16(5)));
                    props.push((0x13, PV::U16(11)));
                }
                3 => props.push((0x25, PV::Byte(2))),
                _ => props.push((0x02, PV::U32(1))),
            }
            let rp = RP::Connack { sp: false, code: 0, props };
            let b = ref_encode(fam, &rp, &Spelling::default()).bytes();
            c04_frame(c, fam, &b, "prefix-sweep");
        }
        if l % 7 == 0 {
            // the same through a user property (two length prefixes) in AUTH and in CONNECT's will
            let pair = (USER_PROPERTY, PV::Pair(vec![b'k'; l / 2], vec![b'v'; l - l / 2]));
            let auth = RP::Auth { code: 0x18, props: vec![pair.clone(), (0x15, PV::Str(b"m".to_vec())), (0x15, PV::Str(b"n".to_vec()))] };
            c04_frame(c, fam, &ref_encode(fam, &auth, &Spelling::default()).bytes(), "prefix-sweep");
            let auth_ok = RP::Auth { code: 0x18, props: vec![pair.clone(), (0x15, PV::Str(b"m".to_vec()))] };
            c04_frame(c, fam, &ref_encode(fam, &auth_ok, &Spelling::default()).bytes(), "prefix-sweep");
            let will = RWill { qos: 0, retain: false, topic: b"w".to_vec(), payload: Vec::new(), props: vec![pair, (0x18, PV::U32(1)), (0x18, PV::U32(2))] };
            let conn = RP::Connect { name: b"MQTT".to_vec(), level: 5, clean: true, keep_alive: 1, client_id: b"c".to_vec(), will: Some(will), username: None, password: None, props: Vec::new() };
            c04_frame(c, fam, &ref_encode(fam, &conn, &Spelling::default()).bytes(), "prefix-sweep");
        }
    }
    c.countn("prefix-sweep.fillers", (k / nw) as u64);
}

pub fn c04(ctx: &mut Ctx, layer: &str) {
    let n: usize = match layer {
        "miri" => if ctx.thorough { 10_000 } else { 600 },
        "vg" => 20_000,
        _ => {
            if ctx.thorough {
                30_000_000
            } else {
                5_000_000
            }
        }
    };
    let tiny = matches!(layer, "miri" | "vg");
    wl::par(ctx, |w, nw, c, r| {
        let mut mal = Vec::new();
        c04_prefix_sweep(c, w, nw, layer);
        for fam in [Fam::V3, Fam::V5] {
            // exhaustive tiny frames: every control byte with bodies of 0 and 1 bytes, sampled 2-byte bodies
            if !tiny {
                for ctl in 0..256u32 {
                    if ctl as usize % nw != w {
                        continue;
                    }
                    c04_frame(c, fam, &[ctl as u8, 0], "tiny");
                    for x in 0..256u32 {
                        c04_frame(c, fam, &[ctl as u8, 1, x as u8], "tiny");
                    }
                    for _ in 0..64 {
                        c04_frame(c, fam, &[ctl as u8, 2, r.u8(), r.u8()], "tiny");
                        c04_frame(c, fam, &[ctl as u8, 3, r.u8() & 1, r.u8(), r.u8() & 3], "tiny");
                    }
                }
            }
            for (b, k) in crate::mon::bytes::dontcare_frames(r, fam) {
                c04_frame(c, fam, &b, k);
            }
            let per = n / nw / 2 + 1;
            let mut i = 0;
            while i < per {
                let rp = gen::gen_any(r, fam);
                // (i) well-formed under a random spelling
                let host = host_frame(r, fam, &rp);
                c04_frame(c, fam, &host.bytes(), "spelled");
                i += 1;
                match r.below(4) {
                    0 => {
                        // (ii) catalogue malformations, singly and stacked
                        mal.clear();
                        malformations(r, fam, &host, &mut mal);
                        for m in mal.iter().filter(|m| !m.row.starts_with("varint-5bytes-remlen")) {
                            c04_frame(c, fam, &m.bytes, m.row);
                            i += 1;
                        }
                    }
                    1 | 2 => {
                        // structure-aware mutation (1-3 operators), lengths recomputed
                        let mut f = host.clone();
                        for _ in 0..r.range(1, 3) {
                            let _ = wl::mutate_frame(r, &mut f);
                        }
                        let b = f.bytes();
                        if let Some(fb) = wl::reframe_bytes(&b) {
                            c04_frame(c, fam, &fb, "frame-mutation");
                            i += 1;
                        }
                    }
                    _ => {
                        // (iii) byte-level mutation, re-framed
                        let src = host.bytes();
                        let m = wl::mutate_bytes(r, &src, &src);
                        if let Some(fb) = wl::reframe_bytes(&m) {
                            c04_frame(c, fam, &fb, "byte-mutation");
                            i += 1;
                        }
                    }
                }
            }
        }
    });
    if !tiny {
        for rule in ALL_RULES {
            if !ctx.hist.contains_key(&format!("rule.{}", rule)) {
                ctx.harness_error(format!("grammar rule {} was never exercised in the rejecting direction", rule));
            }
        }
        for fam in [3u8, 5] {
            for t in 1..=(if fam == 5 { 15 } else { 14 }) {
                let k = format!("v{}.{}.well-formed.accepted", fam, TYPE_NAMES[t]);
                if !ctx.hist.contains_key(&k) {
                    ctx.harness_error(format!("no well-formed {} frame of v{} was observed being accepted", TYPE_NAMES[t], fam));
                }
            }
        }
    }
}

pub fn replay(ctx: &mut Ctx, case: &Case) {
    let fam = Fam::from_n(case.fam);
    match ctx.prop {
        "C04" => c04_frame(ctx, fam, &case.bytes, "replay"),
        "C20" => {
            // the expectation is recomputed by the reference decoder
            match ref_decode(fam, &case.bytes) {
                Some(RefOut::Reject(e)) => {
                    let lenient = match case.get("row") {
                        Some("remlen-zero-for-body-type") | Some("inner-length-past-frame") => Lenient::Incomplete,
                        Some("leftover-inside-frame") => Lenient::Free,
                        _ => Lenient::Same,
                    };
                    let m = Malformed { row: "replay", bytes: case.bytes.clone(), expect: e, lenient };
                    c20_one(ctx, fam, &m);
                }
                other => ctx.harness_error(format!("replay frame is not rejected by the reference decoder: {:?}", other)),
            }
        }
        _ => {}
    }
}

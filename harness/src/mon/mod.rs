pub mod arith;
pub mod bytes;
pub mod grammar;
pub mod sched;
pub mod topics;
pub mod valid;

use crate::ev::{Case, Ctx};

pub const PROPS: [&str; 20] = [
    "C01", "C02", "C03", "C04", "C05", "C06", "C07", "C08", "C09", "C10", "C11", "C12", "C13", "C14", "C15", "C16", "C17", "C18", "C19", "C20",
];

pub fn run(ctx: &mut Ctx, layer: &str) {
    match ctx.prop {
        "C01" => valid::c01(ctx, layer),
        "C02" => valid::c02(ctx, layer),
        "C03" => bytes::c03(ctx, layer),
        "C04" => grammar::c04(ctx, layer),
        "C05" => sched::c05(ctx, layer),
        "C06" => bytes::c06(ctx, layer),
        "C07" => sched::c07(ctx, layer),
        "C08" => sched::c08(ctx, layer),
        "C09" => valid::c09(ctx, layer),
        "C10" => valid::c10(ctx, layer),
        "C11" => bytes::c11(ctx, layer),
        "C12" => bytes::c12(ctx, layer),
        "C13" => arith::c13(ctx, layer),
        "C14" => sched::c14(ctx, layer),
        "C15" => arith::c15(ctx, layer),
        "C16" => topics::c16(ctx, layer),
        "C17" => topics::c17(ctx, layer),
        "C18" => topics::c18(ctx, layer),
        "C19" => arith::c19(ctx, layer),
        "C20" => grammar::c20(ctx, layer),
        _ => ctx.harness_error("unknown property"),
    }
}

pub fn replay(ctx: &mut Ctx, case: &Case) {
    match ctx.prop {
        "C01" | "C02" | "C09" | "C10" => valid::replay(ctx, case),
        "C03" | "C06" | "C11" | "C12" => bytes::replay(ctx, case),
        "C04" | "C20" => grammar::replay(ctx, case),
        "C05" | "C07" | "C08" | "C14" => sched::replay(ctx, case),
        "C13" | "C15" | "C19" => arith::replay(ctx, case),
        "C16" | "C17" | "C18" => topics::replay(ctx, case),
        _ => ctx.harness_error("unknown property"),
    }
}

/// How cases are generated and what makes one distinct / non-trivial (goes into the evidence file).
pub fn rule(prop: &str) -> &'static str {
    match prop {
        "C01" => "valid packets from the finite enumerations G2 (every code, flag combination, subscription option, property subset), random structure-aware values G1 and size-boundary packets G3, each encoded and decoded through the blocking, async (random delivery schedule) and poll (random schedule, future kept or re-created) front-ends; distinct = distinct encodings (64-bit fingerprint) of packets other than PINGREQ/PINGRESP",
        "C02" => "same valid-packet workload as C01 plus oversize packets (remaining length 2^28, 2^28+1, 2^28+65536 by payload, by code list and by property section alone); for each: encode_len vs bytes written, remaining-length field vs bytes following, every public Encodable part streamed into a sink vs its encode_len, body stream vs packet encoding; chk and rel builds must produce the same rolling hash; distinct = distinct encodings",
        "C03" => "byte strings: all strings of length <= 2 (and all of length 3 in the thorough tier), every first byte x every one-byte length x five body shapes, random strings, byte-level and structure-aware corruptions of valid encodings, other-family encodings, maximal declared lengths, and the deterministic validator-boundary catalogue (protocol name x level matrix complete and cut after the level byte, one pass of the C20 malformations); each fed to blocking, async, header, raw-header, poll (always-ready and scheduled) and the public per-type decoders under the panic / step / allocation monitors (plus Miri, ASan, memcheck layers); distinct = distinct inputs (exhaustive part counted directly, rest by fingerprint)",
        "C04" => "complete frames with minimal var-ints: reference-encoded valid packets under random spellings, catalogue malformations, 1-3 structure-aware mutations with lengths recomputed, re-framed byte mutations, all control bytes x bodies of 0/1 bytes, and a property-level malformation (duplicate adjacent / non-adjacent, bad boolean, disallowed id) with its well-formed twin behind a filler property of every length up to 65,532 (quick: all < 2048, every offset = 255/0 mod 256, the last 2600); poll decoder verdict and fields compared with the reference decoder's three-way classification; distinct = distinct frames that were either well-formed non-trivial and accepted or ill-formed and rejected",
        "C05" => "streams (minimal packets of every type, non-minimal and over-long length fields, malformed and truncated frames, random strings, long packets with 2-4 byte headers) x delivery schedules: exhaustively every chunking x every subset of chunks preceded by Pending x trailing Pending x {future kept, re-created at every poll} for short streams, random edge-biased schedules and clone-and-resume for the rest; oracle = the uninterrupted run + transport log + state snapshots; distinct = distinct (stream, schedule, mode) triples",
        "C06" => "hostile byte strings (as C03 sources) with random trailing bytes plus one frame per don't-care row: blocking vs async with EOF mapped to incomplete, Header::decode vs decode_async, and poll vs both on strings that start with a complete frame; distinct = distinct inputs on which the poll decoder accepted or rejected with a non-remaining-length error (the cases where agreement is demanded)",
        "C07" => "valid packets (G2, G1, G3): every strict prefix (all cut positions up to 4 KiB, structure edges and 64 random cuts beyond) through blocking / async / poll, and five kinds of suffix through blocking / async; distinct = distinct encodings",
        "C08" => "sequences of 1-40 valid packets (mixed types, body-less packets, empty payloads, 2/3/4-byte headers adjacent) concatenated and decoded one at a time by the blocking decoder (advancing by encode_len and by the header helpers), the async decoder and the poll decoder on one scripted reader with chunk boundaries straddling packets; distinct = distinct streams",
        "C09" => "valid packets: encode twice, encode_async under write schedules (exhaustive compositions x Pending placements for 2- and 4-byte packets, always-all / one-byte / random / short-first-write / Pending-first otherwise), each against a plain sink and a gathering one (is_write_vectored, budget spent across slices), and the body's streaming encoder into sinks accepting 1, 3 or all bytes per write; distinct = distinct encodings",
        "C10" => "valid packets (all of G2 so that every code, property, flag and version number is hit, plus G1/G3) encoded by the crate and parsed by the independent reference decoder; the run is a harness error unless every table entry was observed on the wire; distinct = distinct encodings",
        "C11" => "manufactured accepted inputs: reference-encoded packets under all spellings (long forms, shuffled properties, non-minimal header lengths), lenient framings, trailing bytes, every don't-care shape, plus hostile mutations that happen to be accepted; every acceptance by any front-end is re-encoded and re-decoded on all front-ends; distinct = distinct inputs accepted by at least one front-end",
        "C12" => "frames in which every text position in turn carries hostile text (overlong, surrogate, truncated, 0xFF, NUL, wildcards, multi-byte $share names), one ill-formed sequence (surrogate, overlong, > U+10FFFF) at every byte offset of a 65,535-byte topic, a 39 KiB reason string, a 32 KiB user-property value and a UTF-8-flagged payload of 131,075 (thorough 400,003) bytes, plus the C11 workload; every packet returned by any front-end is walked field by field; distinct = distinct inputs accepted by at least one front-end",
        "C13" => "every CONNECT of G2 (all flag combinations x 3.1 / 3.1.1 / 5.0) and random CONNECTs presented to the other family's three front-ends, with continuation through decode_with_protocol; all 256 levels x 15 protocol names through both families and Protocol::new; distinct = distinct CONNECT encodings + (family, name, level) triples",
        "C14" => "valid packets x every byte position (all positions up to 2 KiB) x {nine io::ErrorKind values in five shapes: kind + text, bare kind, OS error code, wrapping another io::Error of a different kind as payload, wrapping it behind source(); clean EOF} for the async and poll decoders, x {error kinds, zero-length write, transient Interrupted} for encode_async and the streaming encoder; plus all conversions between the error types and io::Error; distinct = distinct host encodings + conversion cases",
        "C15" => "values of the variable byte integer domain (thorough: all 2^28 — exhaustive — for var_int_len, total_len, header_len, remaining_len, the writer and the reader via the Subscription Identifier property and decode_raw_header; the poll header state machine on all values < 2^22, every 257th value above and the last 4096; quick: all < 2^16, +-4096 around every width boundary and the top, 2M random); all continuation-bit patterns of 1-5 bytes; first invalid values; distinct = distinct values / patterns",
        "C16" => "all strings of up to 7 (quick) / 8 (thorough) symbols over {'/','+','#','$','a',NUL,'é','𝄞'} behind each of 29 $share / $SYS prefix shapes and look-alikes, long strings around 65535 bytes, and 14 marker patterns around two filler runs (1/2/3-byte characters) of every length 0..=150 (thorough 400), through TopicFilter::is_invalid / try_from and (sampled) inside v3/v5 SUBSCRIBE and UNSUBSCRIBE; distinct = strings enumerated (each visited once)",
        "C17" => "the valid filters of C16's enumeration plus long random valid filters: accessors vs the unique split, text round trip, ==/cmp/hash (two hashers) on all pairs within buckets of 64, decoded-vs-constructed filters; distinct = valid filters examined",
        "C18" => "all strings of up to 7 / 8 symbols over {'/','+','#','$','S','a',NUL,'é'} behind 11 prefix shapes ('', '$share/', '$SYS/', '$sys/', '$SYS', and the markers in non-initial position), long strings around the limit, six marker patterns around two filler runs of every length 0..=150 (thorough 400), through TopicName::is_invalid / try_from / accessors and (sampled) the eight packet routes; distinct = strings enumerated",
        "C19" => "pairs (identifier, amount): thorough all 65535 x 65536; quick all amounts for identifiers <= 300 and >= 65200, and amounts {0..300, 32760..32776, 65200..65535, p, p+-1, 65535-p} for the rest; checked against modular arithmetic on the cycle; distinct = pairs (each visited once)",
        "C20" => "valid host packets (G2 sample, G1, special hosts) x every applicable catalogue operator at every applicable position (36 rows); expected error declared by the operator and cross-checked against the reference decoder; poll result must be the documented variant with its payload, blocking/async as the row prescribes; distinct = distinct malformed frames",
        _ => "",
    }
}

/// Is the run a complete enumeration of a finite space?
pub fn exhaustive(prop: &str, thorough: bool, layer: &str) -> bool {
    thorough && matches!(layer, "chk" | "rel") && matches!(prop, "C15" | "C19")
}

//! Monitors driven by arbitrary / hostile / manufactured byte strings:
//! C03 (totality and memory safety), C06 (front-ends agree), C11 (accepted ⇒ re-encodable),
//! C12 (decoded packets satisfy their types' invariants).

use futures_lite::future::block_on;
use mqtt_proto::{v3, v5};

use crate::alloc;
use crate::ev::{guard, hex_short, panic_sig, Case, Ctx};
use crate::fe::*;
use crate::gen;
use crate::io::ScriptedReader;
use crate::refdec::{split_frame, Split};
use crate::refenc::{ref_encode, Frame, Role, Spelling};
use crate::refm::*;
use crate::rng::{fnv_bytes, Rng};
use crate::walk;
use crate::wl;

fn bcase(fam: Fam, b: &[u8]) -> Case {
    Case::new("bytes", fam.n(), b)
}

// ------------------------------------------------------------------------------------------
// shared: sources of hostile and of manufactured-accepted byte strings

/// Reference-encoded valid packet under a random spelling, optionally with lenient framing.
pub fn spelled(r: &mut Rng, fam: Fam) -> (Vec<u8>, &'static str) {
    let rp = gen::gen_any(r, fam);
    let sp = Spelling {
        prop_shuffle: if r.bool() { r.next() | 1 } else { 0 },
        long_form: r.below(3) as u8,
        remlen_width: if r.chance(1, 4) { r.range(2, 4) as u8 } else { 0 },
        proplen_width: if r.chance(1, 5) { r.range(2, 4) as u8 } else { 0 },
    };
    let f = ref_encode(fam, &rp, &sp);
    let mut b = f.bytes();
    let mut kind = "spelled";
    match r.below(8) {
        0 => {
            // trailing garbage after the frame
            let k = r.range(1, 6);
            let g = r.bytes(k);
            b.extend_from_slice(&g);
            kind = "spelled+suffix";
        }
        1 => {
            // lenient framing: declared remaining length larger than the self-delimiting body
            if let Split::Frame { ctl, remlen, hdr, .. } = split_frame(&b) {
                let extra = r.range(1, 4);
                let mut body = b[hdr..].to_vec();
                let g = r.bytes(extra);
                body.extend_from_slice(&g);
                let mut nb = vec![ctl];
                nb.extend_from_slice(&varint_enc(remlen as u64 + extra as u64));
                nb.extend_from_slice(&body);
                b = nb;
                kind = "lenient-frame";
            }
        }
        _ => {}
    }
    (b, kind)
}

/// One frame per don't-care row of DESIGN.md §3.1 (structurally well-formed, semantically odd).
pub fn dontcare_frames(r: &mut Rng, fam: Fam) -> Vec<(Vec<u8>, &'static str)> {
    let v5 = fam == Fam::V5;
    let mut out: Vec<(Vec<u8>, &'static str)> = Vec::new();
    let sp = Spelling::default();
    let (name, level): (&[u8], u8) = if v5 { (b"MQTT", 5) } else { gen::v3_versions()[r.below(2) as usize] };
    let connect = |client_id: Vec<u8>, clean: bool, user: Option<Vec<u8>>, pass: Option<Vec<u8>>| RP::Connect {
        name: name.to_vec(),
        level,
        clean,
        keep_alive: 30,
        client_id,
        will: None,
        username: user,
        password: pass,
        props: Vec::new(),
    };
    // L1: will retain without will flag
    {
        let mut f = ref_encode(fam, &connect(b"cid".to_vec(), true, None, None), &sp);
        for s in f.segs.iter_mut() {
            if s.role == Role::ConnFlags {
                s.bytes[0] |= 0x20;
            }
        }
        out.push((f.bytes(), "L1"));
    }
    // L2: password without user name
    out.push((ref_encode(fam, &connect(b"cid".to_vec(), true, None, Some(b"pw".to_vec())), &sp).bytes(), "L2"));
    // L3: empty client id with clean = 0; long client id
    out.push((ref_encode(fam, &connect(Vec::new(), false, None, None), &sp).bytes(), "L3"));
    out.push((ref_encode(fam, &connect(gen::text_exact(r, 40), true, None, None), &sp).bytes(), "L3"));
    // L4: session present with a failure code
    out.push((ref_encode(fam, &RP::Connack { sp: true, code: if v5 { 0x87 } else { 5 }, props: Vec::new() }, &sp).bytes(), "L4"));
    // L5: DUP with QoS 0; empty topic; topic alias 0
    out.push((
        ref_encode(fam, &RP::Publish { dup: true, qos: 0, retain: false, topic: b"a".to_vec(), pid: None, props: Vec::new(), payload: b"x".to_vec() }, &sp).bytes(),
        "L5",
    ));
    out.push((
        ref_encode(fam, &RP::Publish { dup: false, qos: 1, retain: false, topic: Vec::new(), pid: Some(9), props: Vec::new(), payload: b"x".to_vec() }, &sp).bytes(),
        "L5",
    ));
    if v5 {
        out.push((
            ref_encode(fam, &RP::Publish { dup: false, qos: 0, retain: false, topic: b"a".to_vec(), pid: None, props: vec![(0x23, PV::U16(0))], payload: Vec::new() }, &sp)
                .bytes(),
            "L5",
        ));
    }
    // L6: SUBACK / UNSUBACK without codes
    out.push((ref_encode(fam, &RP::Suback { pid: 3, props: Vec::new(), codes: Vec::new() }, &sp).bytes(), "L6"));
    if v5 {
        out.push((ref_encode(fam, &RP::Unsuback { pid: 3, props: Vec::new(), codes: Vec::new() }, &sp).bytes(), "L6"));
        // L7
        out.push((
            ref_encode(fam, &RP::Subscribe { pid: 3, props: vec![(0x0B, PV::Var(0))], topics: vec![(b"a".to_vec(), 0)] }, &sp).bytes(),
            "L7",
        ));
        let mut c = connect(b"cid".to_vec(), true, None, None);
        if let RP::Connect { props, .. } = &mut c {
            *props = vec![(0x21, PV::U16(0)), (0x27, PV::U32(0)), (0x16, PV::Bin(b"data".to_vec()))];
        }
        out.push((ref_encode(fam, &c, &sp).bytes(), "L7"));
        out.push((ref_encode(fam, &RP::Auth { code: 0x18, props: vec![(0x1F, PV::Str(b"why".to_vec()))] }, &sp).bytes(), "L7"));
        // L8: no local on a shared subscription
        out.push((
            ref_encode(fam, &RP::Subscribe { pid: 3, props: Vec::new(), topics: vec![(b"$share/g/a".to_vec(), 0b100)] }, &sp).bytes(),
            "L8",
        ));
        // S1: two subscription identifiers in PUBLISH
        out.push((
            ref_encode(
                fam,
                &RP::Publish { dup: false, qos: 0, retain: false, topic: b"a".to_vec(), pid: None, props: vec![(0x0B, PV::Var(1)), (0x0B, PV::Var(2))], payload: Vec::new() },
                &sp,
            )
            .bytes(),
            "S1",
        ));
        // A1: AUTH with remaining length 1
        out.push((vec![0xF0, 0x01, 0x18], "A1"));
    }
    // L9: U+0000 in a non-topic string
    out.push((ref_encode(fam, &connect(b"a\0b".to_vec(), true, Some(b"\0".to_vec()), None), &sp).bytes(), "L9"));
    out
}

const HOSTILE_TEXT: &[&[u8]] = &[
    b"\xc0\xaf",             // overlong '/'
    b"\xe0\x80\xaf",         // overlong
    b"\x80",                 // lone continuation
    b"a\xbf",                // lone continuation
    b"\xed\xa0\x80",         // surrogate D800
    b"\xed\xbf\xbf",         // surrogate DFFF
    b"\xe2\x82",             // truncated 3-byte sequence
    b"\xf0\x9d\x84",         // truncated 4-byte sequence
    b"\xf4\x90\x80\x80",     // > U+10FFFF
    b"\xff",                 // never valid
    b"\xfe\xfe\xff\xff",     //
    b"a\0b",                 // NUL
    b"\0",                   //
    b"a/+/b",                // wildcards
    b"a/#",                  //
    b"#",                    //
    b"+",                    //
    b"a+",                   //
    b"+x",                   //
    b"a/b#",                 //
    b"$share/\xc3\xa9\xc3\xa9/t", // multi-byte share name
    b"$share/g\xf0\x9d\x84\x9e/+/x",
    b"$share//a",            //
    b"$share/g",             //
    b"$share/g/",            //
    b"$share/g+/a",          //
    b"$share/+/a",           //
    b"/$share/g/a",          //
    b"$SYS/x",               //
    b"",                     //
    b"\xef\xbb\xbfbom",      // BOM
    b"\xef\xbf\xbf",         // U+FFFF
];

/// (a multi-byte character, where to cut it)
pub const STRADDLE: &[(&[u8], usize)] = &[
    (b"\xc3\xa9", 1),
    (b"\xe4\xbd\xa0", 1),
    (b"\xe4\xbd\xa0", 2),
    (b"\xf0\x9d\x84\x9e", 1),
    (b"\xf0\x9d\x84\x9e", 2),
    (b"\xf0\x9d\x84\x9e", 3),
];

fn lp(b: &[u8]) -> Vec<u8> {
    let mut v = vec![(b.len() >> 8) as u8, b.len() as u8];
    v.extend_from_slice(b);
    v
}

/// For a valid packet's frame: every text position in turn replaced by hostile text.
pub fn hostile_text_frames(r: &mut Rng, fam: Fam, out: &mut Vec<Vec<u8>>) {
    let rp = gen::gen_any(r, fam);
    let f0 = ref_encode(fam, &rp, &Spelling::default());
    let spots: Vec<usize> = f0.positions(|s| match &s.role {
        Role::Str(_) | Role::ProtoName => true,
        Role::Prop { kind, .. } => matches!(kind, PK::Str | PK::Pair),
        _ => false,
    });
    // a host with hundreds of text fields (long topic lists) would cost frames x fields: keep the
    // first and last few spots and a random sample of the rest
    let spots: Vec<usize> = if spots.len() > 48 {
        let n = spots.len();
        spots.iter().enumerate().filter(|(j, _)| *j < 8 || *j + 8 >= n || r.chance(32, n as u64)).map(|(_, s)| *s).collect()
    } else {
        spots
    };
    for &i in &spots {
        // a few hostile strings per spot
        let long = gen::long_invalid_filter(r);
        for k in 0..4 {
            let h: &[u8] = if k == 3 { &long } else { *r.pick(HOSTILE_TEXT) };
            let mut f: Frame = f0.clone();
            match f.segs[i].role.clone() {
                Role::Str(_) | Role::ProtoName => f.segs[i].bytes = lp(h),
                Role::Prop { id, kind } => {
                    let mut b = vec![id];
                    b.extend_from_slice(&lp(h));
                    if kind == PK::Pair {
                        match r.below(3) {
                            0 => b.extend_from_slice(&lp(b"v")),
                            1 => {
                                b = vec![id];
                                b.extend_from_slice(&lp(b"k"));
                                b.extend_from_slice(&lp(h));
                            }
                            _ => {
                                // one multi-byte character straddling the name/value boundary: each
                                // half is ill-formed although their concatenation is well-formed
                                let (ch, cut) = *r.pick(STRADDLE);
                                let mut name = b"k".to_vec();
                                name.extend_from_slice(&ch[..cut]);
                                let mut value = ch[cut..].to_vec();
                                value.extend_from_slice(b"v");
                                b = vec![id];
                                b.extend_from_slice(&lp(&name));
                                b.extend_from_slice(&lp(&value));
                            }
                        }
                    }
                    f.segs[i].bytes = b;
                }
                _ => {}
            }
            f.reframe();
            out.push(f.bytes());
        }
    }
    // one character straddling two adjacent text fields
    for w in spots.windows(2) {
        if w[1] != w[0] + 1 {
            continue;
        }
        if let (Role::Str(_), Role::Str(_)) = (&f0.segs[w[0]].role, &f0.segs[w[1]].role) {
            let (ch, cut) = *r.pick(STRADDLE);
            let mut f: Frame = f0.clone();
            let mut a = f.segs[w[0]].bytes[2..].to_vec();
            a.extend_from_slice(&ch[..cut]);
            let mut b2 = ch[cut..].to_vec();
            b2.extend_from_slice(&f.segs[w[1]].bytes[2..]);
            if a.len() <= 65_535 && b2.len() <= 65_535 {
                f.segs[w[0]].bytes = lp(&a);
                f.segs[w[1]].bytes = lp(&b2);
                f.reframe();
                out.push(f.bytes());
            }
        }
    }
}

/// A stream of hostile inputs: calls `f(bytes, class)`.
pub fn hostile_stream(r: &mut Rng, fam: Fam, n: usize, f: &mut dyn FnMut(&[u8], &'static str)) {
    let mut other = crate::refenc::ref_bytes(fam, &gen::gen_any(r, fam));
    for i in 0..n {
        match r.below(10) {
            0 => f(&wl::random_stream(r, 64), "random<=64"),
            1 if i % 16 == 0 => f(&wl::random_stream(r, 4096), "random<=4096"),
            2 | 3 | 4 => {
                let rp = gen::gen_any(r, fam);
                let src = crate::refenc::ref_bytes(fam, &rp);
                let m = wl::mutate_bytes(r, &src, &other);
                f(&m, "byte-mutation");
                other = src;
            }
            5 | 6 => {
                let rp = gen::gen_any(r, fam);
                let mut fr = ref_encode(fam, &rp, &Spelling { prop_shuffle: r.next(), long_form: r.below(3) as u8, remlen_width: 0, proplen_width: 0 });
                let _ = wl::mutate_frame(r, &mut fr);
                f(&fr.bytes(), "frame-mutation");
            }
            7 => {
                // other family's bytes
                let of = if fam == Fam::V3 { Fam::V5 } else { Fam::V3 };
                let rp = gen::gen_any(r, of);
                f(&crate::refenc::ref_bytes(of, &rp), "other-family");
            }
            8 => {
                let (b, k) = spelled(r, fam);
                f(&b, k);
            }
            _ => {
                let rp = gen::gen_any(r, fam);
                let src = crate::refenc::ref_bytes(fam, &rp);
                if let Some(m) = wl::reframe_bytes(&wl::mutate_bytes(r, &src, &other)) {
                    f(&m, "reframed-mutation");
                }
            }
        }
    }
}

// ------------------------------------------------------------------------------------------
// C03

/// Entry points, numbered for the allocation meter's replay files.
pub const ENTRY_NAMES: [&str; 8] = ["block", "async", "header", "header_async", "raw_header", "poll", "poll_sched", "part"];

fn c03_guarded<T>(c: &mut Ctx, fam: Fam, b: &[u8], entry: u32, f: impl FnOnce() -> T) -> Option<T> {
    alloc::set_current(b, fam.n(), entry);
    alloc::reset_max();
    let r = guard(f);
    let mx = alloc::max_request();
    alloc::clear_current();
    if b.len() < (1 << 20) && mx > alloc::LEGIT_MAX {
        c.violation(
            format!("C03:v{}:{}:alloc", fam.n(), ENTRY_NAMES[entry as usize]),
            format!("a single allocation of {} bytes while decoding {} input bytes", mx, b.len()),
            bcase(fam, b).p("entry", entry),
        );
    }
    match r {
        Ok(v) => Some(v),
        Err(p) => {
            c.violation(
                format!("C03:v{}:{}:panic:{}", fam.n(), ENTRY_NAMES[entry as usize], panic_sig(&p)),
                format!("{} decoder panicked: {}", ENTRY_NAMES[entry as usize], p),
                bcase(fam, b).p("entry", entry),
            );
            None
        }
    }
}

fn spin_check(c: &mut Ctx, fam: Fam, b: &[u8], entry: u32, reads: usize) {
    // every successful read delivers at least one byte, so a decoder needs at most len + 1 reads; a
    // generous factor keeps implementations that re-poll a little from being called spinning
    if reads > 2 * b.len() + 16 {
        c.violation(
            format!("C03:v{}:{}:spin", fam.n(), ENTRY_NAMES[entry as usize]),
            format!("{} transport reads for {} input bytes", reads, b.len()),
            bcase(fam, b).p("entry", entry),
        );
    }
}

pub fn c03_input(c: &mut Ctx, r: &mut Rng, fam: Fam, b: &[u8], full: bool) {
    c.eval();
    // poll, one always-ready reader
    {
        let mut rd = ScriptedReader::ready(b);
        rd.keep_log = false;
        let res = c03_guarded(c, fam, b, 5, || drive_poll(fam, &mut rd, PollMode::Keep, b.len() + 8));
        spin_check(c, fam, b, 5, rd.reads);
        match res {
            Some(run) => match run.out {
                Drive::Done(Ok(_)) => c.count("poll.packet"),
                Drive::Done(Err(e)) => c.count(&format!("poll.{}", e.class())),
                Drive::Stuck(e) => c.violation(format!("C03:v{}:poll:stuck", fam.n()), format!("poll decoder did not terminate: {:?}", e), bcase(fam, b).p("entry", 5)),
            },
            None => {}
        }
    }
    // blocking (after the instrumented front-ends: a spin is caught there first)
    if c.violations.keys().any(|k| k.contains(":spin") || k.contains("MQV-SPIN")) && c.violations.len() > 8 {
        return;
    }
    if let Some(o) = c03_guarded(c, fam, b, 0, || dec_block(fam, b)) {
        c.count(&format!("block.{}", o.class()));
    }
    if !full {
        // bare header (cheap) for the exhaustive short strings
        c03_guarded(c, fam, b, 2, || match fam {
            Fam::V3 => v3::Header::decode(b).is_ok(),
            Fam::V5 => v5::Header::decode(b).is_ok(),
        });
        return;
    }
    // async
    {
        let mut rd = ScriptedReader::ready(b);
        rd.keep_log = false;
        let res = c03_guarded(c, fam, b, 1, || dec_async(fam, &mut rd, b.len() + 8));
        spin_check(c, fam, b, 1, rd.reads);
        if let Some(Drive::Stuck(e)) = res {
            c.violation(format!("C03:v{}:async:stuck", fam.n()), format!("async decoder did not terminate: {:?}", e), bcase(fam, b).p("entry", 1));
        }
    }
    // headers
    c03_guarded(c, fam, b, 2, || match fam {
        Fam::V3 => v3::Header::decode(b).is_ok(),
        Fam::V5 => v5::Header::decode(b).is_ok(),
    });
    c03_guarded(c, fam, b, 3, || {
        let mut s = b;
        match fam {
            Fam::V3 => block_on(v3::Header::decode_async(&mut s)).is_ok(),
            Fam::V5 => block_on(v5::Header::decode_async(&mut s)).is_ok(),
        }
    });
    c03_guarded(c, fam, b, 4, || {
        let mut s = b;
        block_on(mqtt_proto::decode_raw_header(&mut s)).is_ok()
    });
    // poll under a random schedule with re-created futures
    {
        let hdr = match split_frame(b) {
            Split::Frame { hdr, .. } => hdr,
            _ => 2,
        };
        let sched = wl::rand_schedule(r, b.len(), hdr);
        let mut rd = ScriptedReader::new(b, &sched);
        rd.keep_log = false;
        let res = c03_guarded(c, fam, b, 6, || drive_poll(fam, &mut rd, PollMode::Recreate, b.len() * 2 + sched.len() + 8));
        if let Some(run) = res {
            if let Drive::Stuck(e) = run.out {
                c.violation(
                    format!("C03:v{}:poll_sched:stuck", fam.n()),
                    format!("poll decoder did not terminate: {:?}", e),
                    bcase(fam, b).p("entry", 6).p("schedule", wl::schedule_text(&sched)),
                );
            }
        }
    }
    // per-type public decoders with a caller-supplied header
    if !b.is_empty() {
        c03_parts(c, r, fam, b);
    }
}

/// The public per-type `decode_async` functions and property decoders, given arbitrary bytes and
/// a header whose remaining length is near (not necessarily equal to) the body length.
fn c03_parts(c: &mut Ctx, r: &mut Rng, fam: Fam, b: &[u8]) {
    let body = if b.len() > 2 && r.bool() { &b[2..] } else { b };
    let rl = match r.below(6) {
        0 => body.len().saturating_sub(1),
        1 => body.len() + 1,
        2 => r.below(1 << 16) as usize,
        3 => (1 << 28) - 1,
        _ => body.len(),
    } as u32;
    let qos = *r.pick(&[mqtt_proto::QoS::Level0, mqtt_proto::QoS::Level1, mqtt_proto::QoS::Level2]);
    let which = r.below(24);
    c.count("parts");
    // the public `PollHeader` surface with a header that need not agree with the slice it is given
    {
        use mqtt_proto::PollHeader;
        let ctl = if !b.is_empty() && r.bool() { b[0] } else { r.u8() };
        c03_guarded(c, fam, b, 7, || match fam {
            Fam::V3 => {
                if let Ok(h) = <v3::Header as PollHeader>::new_with(ctl, rl) {
                    let _ = h.build_empty_packet();
                    let _ = PollHeader::remaining_len(&h);
                    let mut s = body;
                    if let Err(e) = h.block_decode(&mut s) {
                        let _ = <v3::Header as PollHeader>::is_eof_error(&e);
                    }
                }
            }
            Fam::V5 => {
                if let Ok(h) = <v5::Header as PollHeader>::new_with(ctl, rl) {
                    let _ = h.build_empty_packet();
                    let _ = PollHeader::remaining_len(&h);
                    let mut s = body;
                    if let Err(e) = h.block_decode(&mut s) {
                        let _ = <v5::Header as PollHeader>::is_eof_error(&e);
                    }
                }
            }
        });
    }
    c03_guarded(c, fam, b, 7, || {
        let mut s = body;
        let rd = &mut s;
        match fam {
            Fam::V3 => {
                use v3::*;
                let h = Header::new(PacketType::Publish, r.bool(), qos, r.bool(), rl);
                match which % 7 {
                    0 => block_on(Connect::decode_async(rd)).is_ok(),
                    1 => block_on(Connack::decode_async(rd)).is_ok(),
                    2 => block_on(Publish::decode_async(rd, h)).is_ok(),
                    3 => block_on(Subscribe::decode_async(rd, rl as usize)).is_ok(),
                    4 => block_on(Suback::decode_async(rd, rl as usize)).is_ok(),
                    5 => block_on(Unsubscribe::decode_async(rd, rl as usize)).is_ok(),
                    _ => block_on(Connect::decode_with_protocol(rd, *r.pick(&[mqtt_proto::Protocol::V310, mqtt_proto::Protocol::V311, mqtt_proto::Protocol::V500]))).is_ok(),
                }
            }
            Fam::V5 => {
                use v5::*;
                let types = [
                    PacketType::Connect,
                    PacketType::Connack,
                    PacketType::Publish,
                    PacketType::Puback,
                    PacketType::Pubrec,
                    PacketType::Pubrel,
                    PacketType::Pubcomp,
                    PacketType::Subscribe,
                    PacketType::Suback,
                    PacketType::Unsubscribe,
                    PacketType::Unsuback,
                    PacketType::Disconnect,
                    PacketType::Auth,
                ];
                let pt = *r.pick(&types);
                let h = Header::new(pt, r.bool(), qos, r.bool(), rl);
                match which {
                    0 => block_on(Connect::decode_async(rd, h)).is_ok(),
                    1 => block_on(Connack::decode_async(rd, h)).is_ok(),
                    2 => block_on(Publish::decode_async(rd, h)).is_ok(),
                    3 => block_on(Puback::decode_async(rd, h)).is_ok(),
                    4 => block_on(Pubrec::decode_async(rd, h)).is_ok(),
                    5 => block_on(Pubrel::decode_async(rd, h)).is_ok(),
                    6 => block_on(Pubcomp::decode_async(rd, h)).is_ok(),
                    7 => block_on(Subscribe::decode_async(rd, h)).is_ok(),
                    8 => block_on(Suback::decode_async(rd, h)).is_ok(),
                    9 => block_on(Unsubscribe::decode_async(rd, h)).is_ok(),
                    10 => block_on(Unsuback::decode_async(rd, h)).is_ok(),
                    11 => block_on(Disconnect::decode_async(rd, h)).is_ok(),
                    12 => block_on(Auth::decode_async(rd, h)).is_ok(),
                    13 => block_on(ConnectProperties::decode_async(rd, pt)).is_ok(),
                    14 => block_on(WillProperties::decode_async(rd)).is_ok(),
                    15 => block_on(ConnackProperties::decode_async(rd, pt)).is_ok(),
                    16 => block_on(PublishProperties::decode_async(rd, pt)).is_ok(),
                    17 => block_on(PubackProperties::decode_async(rd, pt)).is_ok(),
                    18 => block_on(SubscribeProperties::decode_async(rd, pt)).is_ok(),
                    19 => block_on(SubackProperties::decode_async(rd, pt)).is_ok(),
                    20 => block_on(UnsubscribeProperties::decode_async(rd, pt)).is_ok(),
                    21 => block_on(DisconnectProperties::decode_async(rd, pt)).is_ok(),
                    22 => block_on(AuthProperties::decode_async(rd, pt)).is_ok(),
                    _ => block_on(LastWill::decode_async(rd, qos, r.bool())).is_ok(),
                }
            }
        }
    });
}

pub fn c03(ctx: &mut Ctx, layer: &str) {
    let thorough = ctx.thorough;
    let (n_short3, n_host): (u64, usize) = match layer {
        "miri" => (0, if thorough { 16_000 } else { 800 }),
        "vg" => (if thorough { 400_000 } else { 20_000 }, if thorough { 3_000_000 } else { 40_000 }),
        "asan" => (if thorough { 3_000_000 } else { 200_000 }, if thorough { 6_000_000 } else { 300_000 }),
        _ => (if thorough { 1 << 24 } else { 2_000_000 }, if thorough { 50_000_000 } else { 3_000_000 }),
    };
    let tiny = layer == "miri";
    wl::par(ctx, |w, n, c, r| {
        let (w64, n64) = (w as u64, n as u64);
        for fam in [Fam::V3, Fam::V5] {
            // (a) exhaustive short strings
            if !tiny {
                if w == 0 {
                    c03_input(c, r, fam, &[], true);
                    c.distinct_direct += 1;
                }
                for a in 0..256u32 {
                    if a as u64 % n64 != w64 {
                        continue;
                    }
                    c03_input(c, r, fam, &[a as u8], true);
                    for b in 0..256u32 {
                        c03_input(c, r, fam, &[a as u8, b as u8], true);
                    }
                    c.distinct_direct += 257;
                }
                c.countn("short.len<=2", 257 * (256 / n64 + 1));
                if n_short3 == 1 << 24 {
                    let mut i = w64;
                    while i < (1 << 24) {
                        c03_input(c, r, fam, &[(i >> 16) as u8, (i >> 8) as u8, i as u8], false);
                        i += n64;
                    }
                    c.distinct_direct += (1 << 24) / n64;
                    c.countn("short.len3", (1 << 24) / n64);
                } else {
                    for _ in 0..n_short3 / n64 {
                        let i = r.below(1 << 24);
                        let s = [(i >> 16) as u8, (i >> 8) as u8, i as u8];
                        c.distinct(fnv_bytes(fam.n() as u64, &s));
                        c03_input(c, r, fam, &s, false);
                    }
                    c.countn("short.len3", n_short3 / n64);
                }
                // (b) every first byte x every one-byte length x body shapes
                let valid_body = {
                    let rp = gen::gen_any(r, fam);
                    let e = crate::refenc::ref_bytes(fam, &rp);
                    match split_frame(&e) {
                        Split::Frame { hdr, .. } => e[hdr..].to_vec(),
                        _ => Vec::new(),
                    }
                };
                for a in 0..256u32 {
                    if a as u64 % n64 != w64 {
                        continue;
                    }
                    for l in 0..128usize {
                        for shape in 0..5 {
                            let mut s = vec![a as u8, l as u8];
                            match shape {
                                0 => {}
                                1 => s.extend(std::iter::repeat(0u8).take(l)),
                                2 => s.extend(std::iter::repeat(0xffu8).take(l)),
                                3 => s.extend(r.bytes(l)),
                                _ => {
                                    s.extend(valid_body.iter().take(l));
                                }
                            }
                            c.distinct(fnv_bytes(fam.n() as u64, &s));
                            c03_input(c, r, fam, &s, shape >= 3);
                        }
                    }
                }
                c.count("g4b.sweeps");
            }
            // (c)-(e) hostile streams
            let mut r2 = Rng::new(r.next());
            hostile_stream(r, fam, n_host / n / 2 + 1, &mut |b, class| {
                c.count(&format!("src.{}", class));
                c.distinct(fnv_bytes(fam.n() as u64, b));
                c.sample(|| format!("v{} {} {}", fam.n(), class, hex_short(b)));
                c03_input(c, &mut r2, fam, b, true);
            });
            // declared lengths far larger than the input
            for ctl in [0x10u8, 0x20, 0x30, 0x32, 0x40, 0x82, 0x90, 0xa2, 0xb0, 0xe0, 0xf0] {
                for len in [[0xffu8, 0xff, 0xff, 0x7f], [0x80, 0x80, 0x80, 0x01], [0xff, 0xff, 0x7f, 0x00], [0x80, 0x80, 0x80, 0x40]] {
                    if (ctl as usize + len[0] as usize) % n != w {
                        continue;
                    }
                    let mut s = vec![ctl];
                    s.extend_from_slice(&len);
                    let k = r.range(0, 40);
                    let g = r.bytes(k);
                    s.extend_from_slice(&g);
                    c.count("huge-declared-length");
                    c03_input(c, r, fam, &s, true);
                }
            }
            // (f) the validator-boundary inputs of C13 and C20, so that the memory detectors of this
            // check's layers (Miri, memcheck, ASan, std's precondition checks) see every comparison
            // against an expected constant and every catalogue malformation, not only random ones
            c03_catalogue(c, r, fam, w, n, tiny);
        }
    });
}

/// Protocol name x level matrix (complete CONNECT and cut right after the level byte) and one pass
/// of the C20 malformation catalogue over the special hosts and a few random ones.
fn c03_catalogue(c: &mut Ctx, r: &mut Rng, fam: Fam, w: usize, n: usize, tiny: bool) {
    let names: [&[u8]; 16] = [
        b"MQTT", b"MQIsdp", b"", b"M", b"MQ", b"MQT", b"MQTTT", b"MQIs", b"MQIsd", b"MQIsdpp", b"mqtt", b"MQTT\0", "MQT\u{e9}".as_bytes(), b"MQ\xffT", b"MQIsdP", b"MQTTMQTT",
    ];
    let levels: [u8; 12] = [0, 1, 2, 3, 4, 5, 6, 0x83, 0x84, 0x85, 0x7f, 0xff];
    let mut idx = 0usize;
    for name in names.iter() {
        for level in levels.iter() {
            if tiny && !(matches!(*level, 3 | 4 | 5 | 0x84) && matches!(name.len(), 0 | 3..=6 | 8) && name.iter().all(|b| b.is_ascii_uppercase() || b.is_ascii_lowercase())) {
                // under Miri (~0.5 s per input): the pairs next to the three known ones only
                continue;
            }
            idx += 1;
            if idx % n != w {
                continue;
            }
            let is5 = *level == 5 && *name == b"MQTT";
            let rp = RP::Connect {
                name: name.to_vec(),
                level: *level,
                clean: true,
                keep_alive: 60,
                client_id: b"c".to_vec(),
                will: None,
                username: None,
                password: None,
                props: Vec::new(),
            };
            let enc = crate::refenc::ref_bytes(if is5 { Fam::V5 } else { Fam::V3 }, &rp);
            c.count("catalogue.protocol");
            c.distinct(fnv_bytes(fam.n() as u64, &enc));
            c03_input(c, r, fam, &enc, true);
            // the stream ends right after the level byte (header 2 + name 2+len + level 1)
            let cut = 2 + 2 + name.len() + 1;
            if cut < enc.len() {
                c03_input(c, r, fam, &enc[..cut], true);
            }
        }
    }
    // Under Miri building the catalogue for one host costs 5-100 s (every frame is cross-checked by the
    // reference decoder), so shard `w` takes the hosts with index = w (mod n) from a list drawn from a
    // PRNG stream common to all shards, and a random two dozen of their frames; the native layers give
    // every worker its own forty hosts and run every frame.
    let mut hosts = Vec::new();
    if tiny {
        let mut hr = Rng::for_worker(c.seed, "C03-catalogue-hosts", fam.n() as u64);
        let mut all = crate::mon::grammar::special_hosts(&mut hr, fam);
        while all.len() < 2 * n.max(1) {
            let rp = gen::gen_any(&mut hr, fam);
            if crate::refenc::ref_bytes(fam, &rp).len() <= 80 {
                all.push(rp);
            }
        }
        for (j, rp) in all.into_iter().enumerate() {
            if j % n == w {
                hosts.push(rp);
            }
        }
    } else {
        hosts = crate::mon::grammar::special_hosts(r, fam);
        for _ in 0..40 {
            hosts.push(gen::gen_any(r, fam));
        }
    }
    let mut out = Vec::new();
    for rp in &hosts {
        let host = crate::mon::grammar::host_frame(r, fam, rp);
        out.clear();
        if tiny && host.bytes().len() > 160 {
            continue;
        }
        crate::mon::grammar::malformations(r, fam, &host, &mut out);
        if tiny && out.len() > 24 {
            r.shuffle(&mut out);
            out.truncate(24);
        }
        for m in &out {
            if m.bytes.len() > 600 && tiny {
                continue;
            }
            c.count("catalogue.malformation");
            c.distinct(fnv_bytes(fam.n() as u64, &m.bytes));
            // under Miri: poll + blocking + header only (the blocking decoder runs the async code)
            c03_input(c, r, fam, &m.bytes, !tiny);
        }
    }
}

// ------------------------------------------------------------------------------------------
// C06

fn hdr_results(fam: Fam, b: &[u8]) -> (String, String, bool) {
    match fam {
        Fam::V3 => {
            let a = v3::Header::decode(b);
            let mut s = b;
            let d = block_on(v3::Header::decode_async(&mut s));
            (format!("{:?}", a), format!("{:?}", d), a == d)
        }
        Fam::V5 => {
            let a = v5::Header::decode(b);
            let mut s = b;
            let d = block_on(v5::Header::decode_async(&mut s));
            (format!("{:?}", a), format!("{:?}", d), a == d)
        }
    }
}

pub fn c06_input(c: &mut Ctx, fam: Fam, b: &[u8], class: &str) {
    c.eval();
    let f = fam.n();
    alloc::set_current(b, f, 0);
    let blk = match guard(|| dec_block(fam, b)) {
        Ok(v) => v,
        Err(p) => {
            c.violation(format!("C06:v{}:block:panic:{}", f, panic_sig(&p)), format!("blocking decoder panicked: {}", p), bcase(fam, b));
            return;
        }
    };
    let asy = match guard(|| dec_async_bytes(fam, b)) {
        Ok((Drive::Done(v), _)) => v,
        Ok((Drive::Stuck(e), _)) => {
            c.violation(format!("C06:v{}:async:stuck", f), format!("async decoder did not complete: {:?}", e), bcase(fam, b));
            return;
        }
        Err(p) => {
            c.violation(format!("C06:v{}:async:panic:{}", f, panic_sig(&p)), format!("async decoder panicked: {}", p), bcase(fam, b));
            return;
        }
    };
    let mapped = match &asy {
        Ok(p) => DecOut::Pkt(p.clone()),
        Err(e) if e.is_eof() => DecOut::Incomplete,
        Err(e) => DecOut::Err(e.clone()),
    };
    c.count(&format!("v{}.block.{}", f, blk.class()));
    if b.len() >= 3 && b.len() <= 4096 {
        // "the blocking decoder always equals the async decoder": for every way the transport delivers the bytes
        let mut sr = Rng::new(fnv_bytes(0xa5c, b));
        let sched = wl::rand_schedule(&mut sr, b.len(), 2);
        let mut rd = ScriptedReader::new(b, &sched);
        rd.keep_log = false;
        match guard(|| dec_async(fam, &mut rd, b.len() * 2 + sched.len() + 16)) {
            Ok(Drive::Done(res)) => {
                if res != asy {
                    c.violation(
                        format!("C06:v{}:async-depends-on-delivery:{}", f, mapped.class()),
                        format!("async decoder under chunked delivery gives {:?}, with everything available at once {:?}", res.as_ref().map(crate::mon::valid::short), asy.as_ref().map(crate::mon::valid::short)),
                        bcase(fam, b).p("schedule", wl::schedule_text(&sched)),
                    );
                }
            }
            Ok(Drive::Stuck(e)) => c.violation(format!("C06:v{}:async-chunked:stuck", f), format!("{:?}", e), bcase(fam, b).p("schedule", wl::schedule_text(&sched))),
            Err(p) => c.violation(format!("C06:v{}:async-chunked:panic:{}", f, panic_sig(&p)), format!("async decoder panicked under chunked delivery: {}", p), bcase(fam, b)),
        }
    }
    if blk != mapped {
        c.violation(
            format!("C06:v{}:block-vs-async:{}:{}", f, blk.class(), mapped.class()),
            format!("blocking {:?} vs async {:?}", short_out(&blk), short_out(&mapped)),
            bcase(fam, b),
        );
    }
    match guard(|| hdr_results(fam, b)) {
        Ok((a, d, same)) => {
            if !same {
                c.violation(format!("C06:v{}:header-block-vs-async", f), format!("Header::decode {} vs Header::decode_async {}", a, d), bcase(fam, b));
            }
        }
        Err(p) => c.violation(format!("C06:v{}:header:panic:{}", f, panic_sig(&p)), format!("header decoder panicked: {}", p), bcase(fam, b)),
    }
    // poll vs the others, on strings that start with a complete frame
    let complete = matches!(split_frame(b), Split::Frame { .. });
    if !complete {
        c.count(&format!("v{}.no-complete-frame", f));
        return;
    }
    let pol = match guard(|| dec_poll_bytes(fam, b)) {
        Ok((Drive::Done(v), _)) => v,
        Ok((Drive::Stuck(e), _)) => {
            c.violation(format!("C06:v{}:poll:stuck", f), format!("poll decoder did not complete: {:?}", e), bcase(fam, b));
            return;
        }
        Err(p) => {
            c.violation(format!("C06:v{}:poll:panic:{}", f, panic_sig(&p)), format!("poll decoder panicked: {}", p), bcase(fam, b));
            return;
        }
    };
    match pol {
        Ok(ok) => {
            c.count(&format!("v{}.matrix.poll=packet.block={}", f, blk.class()));
            c.distinct(fnv_bytes(f as u64 ^ 0x77, b));
            c.sample(|| format!("v{} {} accepted {}", f, class, hex_short(b)));
            if blk != DecOut::Pkt(ok.pkt.clone()) || asy != Ok(ok.pkt.clone()) {
                c.violation(
                    format!("C06:v{}:poll-accepts:{}:block={}", f, ok.pkt.type_name(), blk.class()),
                    format!("poll accepted {} but blocking gave {:?} and async {:?}", crate::mon::valid::short(&ok.pkt), short_out(&blk), asy.as_ref().map(crate::mon::valid::short)),
                    bcase(fam, b),
                );
            }
        }
        Err(e) => {
            c.count(&format!("v{}.matrix.poll={}.block={}", f, e.class(), blk.class()));
            if e.is_remlen() || e.is_eof() {
                return;
            }
            c.distinct(fnv_bytes(f as u64 ^ 0x99, b));
            c.count(&format!("v{}.agreed-error.{}", f, e.class()));
            if blk != DecOut::Err(e.clone()) || asy != Err(e.clone()) {
                c.violation(
                    format!("C06:v{}:poll-rejects:{}:block={}", f, e.class(), blk.class()),
                    format!("poll rejected with {:?} but blocking gave {:?} and async {:?}", e, short_out(&blk), asy.as_ref().map(crate::mon::valid::short)),
                    bcase(fam, b),
                );
            }
        }
    }
}

fn short_out(o: &DecOut) -> String {
    match o {
        DecOut::Pkt(p) => crate::mon::valid::short(p),
        o => format!("{:?}", o),
    }
}

pub fn c06(ctx: &mut Ctx, layer: &str) {
    let n_host: usize = match layer {
        "miri" => if ctx.thorough { 6_000 } else { 400 },
        "vg" => 20_000,
        _ => {
            if ctx.thorough {
                50_000_000
            } else {
                6_000_000
            }
        }
    };
    wl::par(ctx, |_w, n, c, r| {
        for fam in [Fam::V3, Fam::V5] {
            let mut r2 = Rng::new(r.next());
            hostile_stream(r, fam, n_host / n / 2 + 1, &mut |b, class| {
                let mut b = b.to_vec();
                // arbitrary trailing bytes
                if r2.chance(1, 3) {
                    let k = r2.range(1, 5);
                    let g = r2.bytes(k);
                    b.extend_from_slice(&g);
                }
                c.count(&format!("src.{}", class));
                c06_input(c, fam, &b, class);
            });
            for (b, k) in dontcare_frames(r, fam) {
                c06_input(c, fam, &b, k);
            }
        }
    });
    if !matches!(layer, "miri" | "vg") {
        for fam in [3, 5] {
            let variants = ctx.hist.keys().filter(|k| k.starts_with(&format!("v{}.agreed-error.", fam))).count();
            if variants < 12 {
                ctx.harness_error(format!("only {} distinct error variants were compared for v{} (minimum 12)", variants, fam));
            }
        }
    }
}

// ------------------------------------------------------------------------------------------
// C11

/// `p` was returned by front-end `fe` after consuming `consumed` bytes of `b`.
fn c11_accepted(c: &mut Ctx, fam: Fam, b: &[u8], fe: &str, p: &Pkt, consumed: usize) {
    let f = fam.n();
    let t = p.type_name();
    c.count(&format!("accepted.v{}.{}.{}", f, fe, t));
    let case = || bcase(fam, b).p("front_end", fe);
    let enc = match guard(|| p.encode()) {
        Err(pm) => {
            c.violation(format!("C11:v{}:{}:reencode-panic:{}", f, t, panic_sig(&pm)), format!("re-encoding a packet accepted by the {} decoder panicked: {}", fe, pm), case());
            return;
        }
        Ok(Err(e)) => {
            c.violation(format!("C11:v{}:{}:reencode-err", f, t), format!("re-encoding a packet accepted by the {} decoder failed: {:?}", fe, e), case());
            return;
        }
        Ok(Ok(e)) => e,
    };
    if enc.len() > consumed {
        c.violation(
            format!("C11:v{}:{}:longer", f, t),
            format!("re-encoding is {} bytes but the {} decoder consumed only {}", enc.len(), fe, consumed),
            case(),
        );
    }
    // every front-end must decode the re-encoding to p again
    let back_b = guard(|| dec_block(fam, &enc));
    if back_b != Ok(DecOut::Pkt(p.clone())) {
        c.violation(
            format!("C11:v{}:{}:redecode:block", f, t),
            format!("blocking decoder does not return the packet for its own re-encoding {}: {:?}", hex_short(&enc), back_b.map(|o| short_out(&o))),
            case(),
        );
    }
    match guard(|| dec_async_bytes(fam, &enc)) {
        Ok((Drive::Done(Ok(q)), _)) if q == *p => {}
        other => c.violation(
            format!("C11:v{}:{}:redecode:async", f, t),
            format!("async decoder does not return the packet for its own re-encoding {}: {:?}", hex_short(&enc), other.map(|(d, _)| format!("{:?}", d).chars().take(200).collect::<String>())),
            case(),
        ),
    }
    match guard(|| dec_poll_bytes(fam, &enc)) {
        Ok((Drive::Done(Ok(ok)), _)) if ok.pkt == *p && ok.total == enc.len() => {}
        other => c.violation(
            format!("C11:v{}:{}:redecode:poll", f, t),
            format!("poll decoder does not return the packet for its own re-encoding {}: {:?}", hex_short(&enc), other.map(|(d, _)| format!("{:?}", d).chars().take(200).collect::<String>())),
            case(),
        ),
    }
}

/// Feed `b` to all three front-ends; call `on_pkt(front_end, packet, consumed)` for every acceptance.
pub fn accepted_by(c: &mut Ctx, prop: &str, fam: Fam, b: &[u8], on_pkt: &mut dyn FnMut(&mut Ctx, &str, &Pkt, usize)) {
    let f = fam.n();
    alloc::set_current(b, f, 0);
    // async first: it tells how many bytes the (shared) blocking/async path consumes
    let mut consumed = 0;
    match guard(|| dec_async_bytes(fam, b)) {
        Ok((Drive::Done(Ok(p)), pos)) => {
            consumed = pos;
            on_pkt(c, "async", &p, pos);
        }
        Ok(_) => {}
        Err(pm) => c.violation(format!("{}:v{}:async:panic:{}", prop, f, panic_sig(&pm)), format!("async decoder panicked: {}", pm), bcase(fam, b)),
    }
    match guard(|| dec_block(fam, b)) {
        Ok(DecOut::Pkt(p)) => on_pkt(c, "block", &p, if consumed > 0 { consumed } else { b.len() }),
        Ok(_) => {}
        Err(pm) => c.violation(format!("{}:v{}:block:panic:{}", prop, f, panic_sig(&pm)), format!("blocking decoder panicked: {}", pm), bcase(fam, b)),
    }
    match guard(|| dec_poll_bytes(fam, b)) {
        Ok((Drive::Done(Ok(ok)), pos)) => {
            // C05 checks total == consumed; here use what was actually taken from the transport
            on_pkt(c, "poll", &ok.pkt, pos);
        }
        Ok(_) => {}
        Err(pm) => c.violation(format!("{}:v{}:poll:panic:{}", prop, f, panic_sig(&pm)), format!("poll decoder panicked: {}", pm), bcase(fam, b)),
    }
    // "any decoder" includes the async one reading from a transport that delivers the bytes in
    // pieces: a deterministic (input-derived) chunked schedule with Pendings
    if b.len() >= 3 {
        let mut sr = Rng::new(fnv_bytes(0x5c4ed, b));
        let hdr = match split_frame(b) {
            Split::Frame { hdr, .. } => hdr,
            _ => 2,
        };
        let sched = wl::rand_schedule(&mut sr, b.len(), hdr);
        let mut rd = ScriptedReader::new(b, &sched);
        rd.keep_log = false;
        match guard(|| dec_async(fam, &mut rd, b.len() * 2 + sched.len() + 16)) {
            Ok(Drive::Done(Ok(p))) => {
                let pos = rd.pos;
                on_pkt(c, "async-chunked", &p, pos)
            }
            Ok(_) => {}
            Err(pm) => c.violation(
                format!("{}:v{}:async-chunked:panic:{}", prop, f, panic_sig(&pm)),
                format!("async decoder panicked under chunked delivery: {}", pm),
                bcase(fam, b).p("schedule", wl::schedule_text(&sched)),
            ),
        }
    }
}

pub fn c11_input(c: &mut Ctx, fam: Fam, b: &[u8], class: &str) {
    c.eval();
    let mut any = false;
    accepted_by(c, "C11", fam, b, &mut |c, fe, p, consumed| {
        any = true;
        c11_accepted(c, fam, b, fe, p, consumed);
    });
    if any {
        c.distinct(fnv_bytes(fam.n() as u64, b));
        c.count(&format!("accepted-src.{}", class));
        c.sample(|| format!("v{} {} {}", fam.n(), class, hex_short(b)));
    } else {
        c.count(&format!("rejected-src.{}", class));
    }
}

/// Manufactured accepted inputs + hostile streams.
pub fn accepted_workload(r: &mut Rng, fam: Fam, n: usize, f: &mut dyn FnMut(&[u8], &'static str)) {
    for (b, k) in dontcare_frames(r, fam) {
        f(&b, k);
    }
    for i in 0..n {
        if i % 3 != 2 {
            let (b, k) = spelled(r, fam);
            f(&b, k);
        } else {
            hostile_stream(r, fam, 1, f);
        }
    }
}

pub fn c11(ctx: &mut Ctx, layer: &str) {
    let n_in: usize = match layer {
        "miri" => if ctx.thorough { 2_400 } else { 300 },
        "vg" => 10_000,
        "asan" => 3_000_000,
        _ => {
            if ctx.thorough {
                20_000_000
            } else {
                3_000_000
            }
        }
    };
    wl::par(ctx, |_w, n, c, r| {
        for fam in [Fam::V3, Fam::V5] {
            let mut rr = r.clone();
            accepted_workload(&mut rr, fam, n_in / n / 2 + 1, &mut |b, class| c11_input(c, fam, b, class));
            *r = rr;
        }
    });
}

// ------------------------------------------------------------------------------------------
// C12

pub fn c12_input(c: &mut Ctx, fam: Fam, b: &[u8], class: &str) {
    c.eval();
    let mut any = false;
    accepted_by(c, "C12", fam, b, &mut |c, fe, p, _| {
        any = true;
        c.count(&format!("walked.v{}.{}.{}", fam.n(), fe, p.type_name()));
        match guard(|| walk::walk(p)) {
            Err(pm) => c.violation(
                format!("C12:v{}:{}:walker-panic:{}", fam.n(), p.type_name(), panic_sig(&pm)),
                format!("walking a packet returned by the {} decoder panicked: {}", fe, pm),
                bcase(fam, b).p("front_end", fe),
            ),
            Ok(v) => {
                for msg in v {
                    let key: String = msg.chars().take(48).map(|ch| if ch.is_ascii_digit() { 'N' } else { ch }).collect();
                    c.violation(format!("C12:v{}:{}:{}", fam.n(), p.type_name(), key), format!("{} decoder returned a packet violating an invariant: {}", fe, msg), bcase(fam, b).p("front_end", fe));
                }
            }
        }
    });
    if any {
        c.distinct(fnv_bytes(fam.n() as u64, b));
        c.count(&format!("accepted-src.{}", class));
        c.sample(|| format!("v{} {} {}", fam.n(), class, hex_short(b)));
    } else {
        c.count(&format!("rejected-src.{}", class));
    }
}

/// One ill-formed sequence written at *every* byte offset of a long, otherwise well-formed text field
/// (and of a UTF-8-flagged payload): a validator that works in blocks, chunks or growth steps of any
/// size up to the field length is exercised at every one of its internal boundaries, whatever they
/// are. A lean loop (blocking decoder; the poll decoder on a sample); anything accepted goes through
/// the full walker path of `c12_input`.
fn c12_offset_sweep(c: &mut Ctx, w: usize, n: usize, layer: &str) {
    const SEQS: [&[u8]; 3] = [b"\xed\xa0\x80", b"\xe0\x80\x80", b"\xf4\x90\x80\x80"];
    let small = matches!(layer, "miri" | "vg");
    let (n_str, n_pay) = if layer == "miri" {
        (96usize, 160usize)
    } else if small {
        (300, 400)
    } else if layer == "asan" {
        (20_000, 40_000)
    } else if c.thorough {
        (65_535, 400_003)
    } else {
        (65_535, 131_075)
    };
    let hosts: Vec<(Fam, RP, &'static str)> = vec![
        (Fam::V3, RP::Publish { dup: false, qos: 0, retain: false, topic: vec![b'a'; n_str], pid: None, props: Vec::new(), payload: Vec::new() }, "topic"),
        (Fam::V5, RP::Publish { dup: false, qos: 0, retain: false, topic: b"t".to_vec(), pid: None, props: vec![(0x01, PV::Byte(1))], payload: vec![b'a'; n_pay] }, "payload"),
        (Fam::V5, RP::Connack { sp: false, code: 0, props: vec![(0x1F, PV::Str(vec![b'r'; n_str * 3 / 5]))] }, "reason-string"),
        (
            Fam::V5,
            RP::Publish { dup: false, qos: 1, retain: false, topic: b"t".to_vec(), pid: Some(7), props: vec![(0x26, PV::Pair(b"k".to_vec(), vec![b'v'; n_str / 2]))], payload: b"p".to_vec() },
            "user-property-value",
        ),
    ];
    for (fam, rp, what) in hosts {
        let fr = ref_encode(fam, &rp, &Spelling::default());
        let mut buf = fr.bytes();
        // the long run of filler bytes is the field
        let filler = match what {
            "topic" | "payload" => b'a',
            "reason-string" => b'r',
            _ => b'v',
        };
        let lo = match buf.windows(8).position(|x| x.iter().all(|b| *b == filler)) {
            Some(p) => p,
            None => continue,
        };
        let hi = lo + buf[lo..].iter().take_while(|b| **b == filler).count();
        // the unmodified host must be accepted (otherwise the sweep shows nothing)
        if !matches!(dec_block(fam, &buf), DecOut::Pkt(_)) {
            c.harness_error(format!("offset-sweep host {} is not accepted", what));
            continue;
        }
        let mut k = 0u64;
        for p in lo..hi {
            if p % n != w {
                continue;
            }
            for seq in SEQS {
                if p + seq.len() > hi {
                    continue;
                }
                let saved = [buf[p], buf[p + 1], buf[p + 2], buf[p + seq.len() - 1]];
                buf[p..p + seq.len()].copy_from_slice(seq);
                k += 1;
                let accepted = match guard(|| dec_block(fam, &buf)) {
                    Ok(DecOut::Pkt(_)) => true,
                    Ok(_) => false,
                    Err(_) => true, // let the full path report the panic
                };
                let accepted_poll = (k % 257 == 0 || accepted) && matches!(guard(|| dec_poll_bytes(fam, &buf)), Ok((Drive::Done(Ok(_)), _)) | Err(_));
                if accepted || accepted_poll {
                    c12_input(c, fam, &buf, "offset-sweep");
                }
                buf[p] = saved[0];
                buf[p + 1] = saved[1];
                buf[p + 2] = saved[2];
                buf[p + seq.len() - 1] = saved[3];
            }
        }
        c.evals(k);
        c.distinct_direct += k;
        c.countn(&format!("offset-sweep.{}", what), k);
    }
}

pub fn c12(ctx: &mut Ctx, layer: &str) {
    let n_in: usize = match layer {
        "miri" => if ctx.thorough { 3_000 } else { 90 },
        "vg" => 5_000,
        "asan" => 1_500_000,
        _ => {
            if ctx.thorough {
                8_000_000
            } else {
                1_500_000
            }
        }
    };
    wl::par(ctx, |w, n, c, r| {
        c12_offset_sweep(c, w, n, layer);
        for fam in [Fam::V3, Fam::V5] {
            let mut rr = r.clone();
            // validator-aimed frames: every text position carries hostile text in turn
            let mut frames = Vec::new();
            for _ in 0..(n_in / n / 12 + 1) {
                frames.clear();
                hostile_text_frames(&mut rr, fam, &mut frames);
                for b in &frames {
                    c12_input(c, fam, b, "hostile-text");
                }
            }
            accepted_workload(&mut rr, fam, n_in / n / 2 + 1, &mut |b, class| c12_input(c, fam, b, class));
            *r = rr;
        }
    });
}

pub fn replay(ctx: &mut Ctx, case: &Case) {
    let fam = Fam::from_n(case.fam);
    let mut r = Rng::new(ctx.seed);
    match ctx.prop {
        "C03" => c03_input(ctx, &mut r, fam, &case.bytes, true),
        "C06" => c06_input(ctx, fam, &case.bytes, "replay"),
        "C11" => c11_input(ctx, fam, &case.bytes, "replay"),
        "C12" => c12_input(ctx, fam, &case.bytes, "replay"),
        _ => {}
    }
}

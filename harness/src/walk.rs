//! C12: invariant walker over decoded packets. Field access goes through `conv::*_from_lib`
//! (exhaustive struct patterns) for text/number fields, and directly over the crate's
//! TopicName / TopicFilter objects for the library's own predicates and accessors.

use mqtt_proto::{v3, v5, TopicFilter, TopicName};

use crate::ev::guard;
use crate::fe::Pkt;
use crate::refm::*;

pub fn check_topic_name(t: &TopicName, what: &str, out: &mut Vec<String>) {
    let s: &str = t;
    if !utf8_ok(s.as_bytes()) {
        out.push(format!("{}: topic name bytes are not UTF-8", what));
        return;
    }
    if TopicName::is_invalid(s) {
        out.push(format!("{}: TopicName::is_invalid on a decoded topic name", what));
    }
    if !valid_topic_name(s.as_bytes()) {
        out.push(format!("{}: decoded topic name violates the reference rule", what));
    }
}

pub fn check_filter(f: &TopicFilter, what: &str, out: &mut Vec<String>) {
    let s: &str = f;
    let b = s.as_bytes();
    if !utf8_ok(b) {
        out.push(format!("{}: topic filter bytes are not UTF-8", what));
        return;
    }
    if TopicFilter::is_invalid(s).0 {
        out.push(format!("{}: TopicFilter::is_invalid on a decoded filter", what));
    }
    let want = shared_split(b);
    if f.is_shared() != b.starts_with(b"$share/") {
        out.push(format!("{}: is_shared() = {} for {:?}", what, f.is_shared(), s));
    }
    match guard(|| (f.shared_group_name().map(|x| x.to_string()), f.shared_filter().map(|x| x.to_string()), f.shared_info().map(|(a, b)| (a.to_string(), b.to_string())))) {
        Err(p) => out.push(format!("{}: shared accessor panicked: {}", what, p)),
        Ok((g, fl, info)) => {
            let w = if f.is_shared() { want } else { None };
            let wg = w.map(|(a, _)| String::from_utf8_lossy(a).to_string());
            let wf = w.map(|(_, b)| String::from_utf8_lossy(b).to_string());
            if g != wg || fl != wf || info != wg.clone().zip(wf.clone()) {
                out.push(format!("{}: shared accessors {:?}/{:?}/{:?} differ from the split {:?}/{:?} of {:?}", what, g, fl, info, wg, wf, s));
            }
        }
    }
}

fn walk_props(props: &Props, what: &str, out: &mut Vec<String>) {
    for (id, v) in props {
        match v {
            PV::Str(s) => {
                if !utf8_ok(s) {
                    out.push(format!("{}: property 0x{:02x} text is not UTF-8", what, id));
                }
            }
            PV::Pair(k, v) => {
                if !utf8_ok(k) || !utf8_ok(v) {
                    out.push(format!("{}: user property text is not UTF-8", what));
                }
            }
            PV::Var(x) => {
                if *x >= VARINT_LIMIT {
                    out.push(format!("{}: variable byte integer property 0x{:02x} = {}", what, id, x));
                }
            }
            PV::Byte(b) => {
                if *id == 0x24 && *b > 1 {
                    out.push(format!("{}: Maximum QoS = {}", what, b));
                }
            }
            _ => {}
        }
    }
}

fn payload_flag(props: &Props) -> bool {
    props.iter().any(|(i, v)| *i == 0x01 && *v == PV::Byte(1))
}

/// All invariant violations of a decoded packet (empty = fine).
pub fn walk(p: &Pkt) -> Vec<String> {
    let mut out = Vec::new();
    // 1. spec-level view: text fields, identifiers, numbers
    let rp = p.to_ref();
    let txt = |b: &[u8], what: &str, out: &mut Vec<String>| {
        if !utf8_ok(b) {
            out.push(format!("{} is not UTF-8", what));
        }
    };
    let pidz = |p: u16, out: &mut Vec<String>| {
        if p == 0 {
            out.push("packet identifier 0".into());
        }
    };
    match &rp {
        RP::Connect { client_id, will, username, props, .. } => {
            txt(client_id, "client id", &mut out);
            if let Some(u) = username {
                txt(u, "user name", &mut out);
            }
            walk_props(props, "CONNECT", &mut out);
            if let Some(w) = will {
                txt(&w.topic, "will topic", &mut out);
                walk_props(&w.props, "Will", &mut out);
                if payload_flag(&w.props) && !utf8_ok(&w.payload) {
                    out.push("will payload flagged UTF-8 but is not".into());
                }
            }
        }
        RP::Connack { props, .. } => walk_props(props, "CONNACK", &mut out),
        RP::Publish { topic, pid, props, payload, qos, .. } => {
            txt(topic, "topic", &mut out);
            if let Some(p) = pid {
                pidz(*p, &mut out);
            }
            if (*qos > 0) != pid.is_some() {
                out.push("QoS / packet identifier presence mismatch".into());
            }
            walk_props(props, "PUBLISH", &mut out);
            if payload_flag(props) && !utf8_ok(payload) {
                out.push("payload flagged UTF-8 but is not".into());
            }
        }
        RP::Ack { pid, props, .. } => {
            pidz(*pid, &mut out);
            walk_props(props, "ACK", &mut out);
        }
        RP::Subscribe { pid, props, topics } => {
            pidz(*pid, &mut out);
            walk_props(props, "SUBSCRIBE", &mut out);
            for (t, _) in topics {
                txt(t, "filter", &mut out);
            }
        }
        RP::Suback { pid, props, .. } | RP::Unsuback { pid, props, .. } => {
            pidz(*pid, &mut out);
            walk_props(props, "SUBACK", &mut out);
        }
        RP::Unsubscribe { pid, props, topics } => {
            pidz(*pid, &mut out);
            walk_props(props, "UNSUBSCRIBE", &mut out);
            for t in topics {
                txt(t, "filter", &mut out);
            }
        }
        RP::Disconnect { props, .. } | RP::Auth { props, .. } => walk_props(props, "DISCONNECT/AUTH", &mut out),
        RP::Pingreq | RP::Pingresp => {}
    }
    // 2. the library's own predicates and accessors on its topic objects
    match p {
        Pkt::V3(p) => match p {
            v3::Packet::Connect(c) => {
                if let Some(w) = &c.last_will {
                    check_topic_name(&w.topic_name, "v3 will topic", &mut out);
                }
            }
            v3::Packet::Publish(pb) => check_topic_name(&pb.topic_name, "v3 publish topic", &mut out),
            v3::Packet::Subscribe(s) => {
                for (f, _) in &s.topics {
                    check_filter(f, "v3 subscribe filter", &mut out);
                }
            }
            v3::Packet::Unsubscribe(s) => {
                for f in &s.topics {
                    check_filter(f, "v3 unsubscribe filter", &mut out);
                }
            }
            _ => {}
        },
        Pkt::V5(p) => match p {
            v5::Packet::Connect(c) => {
                if let Some(w) = &c.last_will {
                    check_topic_name(&w.topic_name, "v5 will topic", &mut out);
                    if let Some(t) = &w.properties.response_topic {
                        check_topic_name(t, "v5 will response topic", &mut out);
                    }
                }
            }
            v5::Packet::Connack(c) => {
                if c.properties.max_qos == Some(mqtt_proto::QoS::Level2) {
                    out.push("CONNACK max_qos == Level2".into());
                }
            }
            v5::Packet::Publish(pb) => {
                check_topic_name(&pb.topic_name, "v5 publish topic", &mut out);
                if let Some(t) = &pb.properties.response_topic {
                    check_topic_name(t, "v5 response topic", &mut out);
                }
                if let Some(s) = pb.properties.subscription_id {
                    if s.value() >= VARINT_LIMIT {
                        out.push("PUBLISH subscription id out of range".into());
                    }
                }
            }
            v5::Packet::Subscribe(s) => {
                for (f, _) in &s.topics {
                    check_filter(f, "v5 subscribe filter", &mut out);
                }
                if let Some(s) = s.properties.subscription_id {
                    if s.value() >= VARINT_LIMIT {
                        out.push("SUBSCRIBE subscription id out of range".into());
                    }
                }
            }
            v5::Packet::Unsubscribe(s) => {
                for f in &s.topics {
                    check_filter(f, "v5 unsubscribe filter", &mut out);
                }
            }
            _ => {}
        },
    }
    out
}

//! Scripted transports (AsyncRead / AsyncWrite / io::Write) that follow the trait contracts
//! exactly, log every request, and can split, stall and fail at any position; plus a manual
//! executor with a poll budget and a wake counter.

use std::future::Future;
use std::io;
use std::pin::Pin;
use std::sync::atomic::{AtomicUsize, Ordering};
use std::sync::Arc;
use std::task::{Context, Poll, Wake, Waker};

use tokio::io::{AsyncRead, AsyncWrite, ReadBuf};

// ------------------------------------------------------------------------------------------
// executor

pub struct WakeCount(pub AtomicUsize);

impl Wake for WakeCount {
    fn wake(self: Arc<Self>) {
        self.0.fetch_add(1, Ordering::SeqCst);
    }
    fn wake_by_ref(self: &Arc<Self>) {
        self.0.fetch_add(1, Ordering::SeqCst);
    }
}

pub struct Exec {
    pub wc: Arc<WakeCount>,
    pub waker: Waker,
    pub polls: usize,
}

impl Default for Exec {
    fn default() -> Self {
        Exec::new()
    }
}

impl Exec {
    pub fn new() -> Exec {
        let wc = Arc::new(WakeCount(AtomicUsize::new(0)));
        let waker = Waker::from(wc.clone());
        Exec { wc, waker, polls: 0 }
    }
    pub fn wakes(&self) -> usize {
        self.wc.0.load(Ordering::SeqCst)
    }
    pub fn poll<F: Future + Unpin>(&mut self, fut: &mut F) -> Poll<F::Output> {
        self.polls += 1;
        let mut cx = Context::from_waker(&self.waker);
        Pin::new(fut).poll(&mut cx)
    }
    pub fn poll_pinned<F: Future + ?Sized>(&mut self, fut: Pin<&mut F>) -> Poll<F::Output> {
        self.polls += 1;
        let mut cx = Context::from_waker(&self.waker);
        fut.poll(&mut cx)
    }
}

#[derive(Debug, Clone, PartialEq, Eq)]
pub enum RunErr {
    /// future returned Pending although nobody will wake it
    LostWake { polls: usize },
    /// poll budget exhausted
    Budget { polls: usize },
}

/// Drive a future to completion. Every Pending must be accompanied by a wake of *this* task's
/// waker (the scripted transports wake immediately), otherwise the wake-up was lost.
pub fn run<F: Future>(fut: F, budget: usize) -> Result<(F::Output, usize), RunErr> {
    let mut ex = Exec::new();
    let mut fut = Box::pin(fut);
    loop {
        let before = ex.wakes();
        match ex.poll_pinned(fut.as_mut()) {
            Poll::Ready(v) => return Ok((v, ex.polls)),
            Poll::Pending => {
                if ex.wakes() == before {
                    return Err(RunErr::LostWake { polls: ex.polls });
                }
                if ex.polls >= budget {
                    return Err(RunErr::Budget { polls: ex.polls });
                }
            }
        }
    }
}

// ------------------------------------------------------------------------------------------
// reader

#[derive(Clone, Copy, Debug, PartialEq, Eq)]
pub enum Step {
    /// make k more bytes available
    Give(usize),
    /// answer the next poll_read with Pending (after waking the task)
    Pending,
}

#[derive(Clone, Copy, Debug, PartialEq, Eq)]
pub enum RFault {
    Err(io::ErrorKind),
    /// clean end of stream (zero-length read)
    Eof,
}

#[derive(Clone, Copy, Debug, PartialEq, Eq)]
pub enum ROut {
    Data(usize),
    Pending,
    Eof,
    Err(io::ErrorKind),
}

#[derive(Clone, Copy, Debug)]
pub struct ReadEv {
    pub pos: usize,
    pub cap: usize,
    pub out: ROut,
}

pub struct ScriptedReader<'a> {
    pub data: &'a [u8],
    pub pos: usize,
    script: &'a [Step],
    sp: usize,
    avail: usize,
    pub fault: Option<(usize, RFault)>,
    pub fault_fired: bool,
    pub log: Vec<ReadEv>,
    pub keep_log: bool,
    pub reads: usize,
    pub pendings: usize,
    pub max_overask: usize,
    /// upper bound the decoder may ask for at the current position (set by the monitor), usize::MAX = unchecked
    pub frame_end: usize,
}

impl<'a> ScriptedReader<'a> {
    pub fn new(data: &'a [u8], script: &'a [Step]) -> ScriptedReader<'a> {
        ScriptedReader {
            data,
            pos: 0,
            script,
            sp: 0,
            avail: 0,
            fault: None,
            fault_fired: false,
            log: Vec::new(),
            keep_log: true,
            reads: 0,
            pendings: 0,
            max_overask: 0,
            frame_end: usize::MAX,
        }
    }
    pub fn ready(data: &'a [u8]) -> ScriptedReader<'a> {
        ScriptedReader::new(data, &[])
    }
    pub fn with_fault(mut self, pos: usize, f: RFault) -> Self {
        self.fault = Some((pos, f));
        self
    }
    fn ev(&mut self, cap: usize, out: ROut) {
        if self.keep_log {
            self.log.push(ReadEv { pos: self.pos, cap, out });
        }
    }
}

impl<'a> AsyncRead for ScriptedReader<'a> {
    fn poll_read(self: Pin<&mut Self>, cx: &mut Context<'_>, buf: &mut ReadBuf<'_>) -> Poll<io::Result<()>> {
        let me = self.get_mut();
        me.reads += 1;
        if me.reads > me.data.len() + me.script.len() + 64 {
            // A decoder that keeps reading after end-of-input (or after an error) never returns:
            // turn the logical-step overrun into a panic that the monitors' guard attributes.
            panic!("MQV-SPIN: {} transport reads for a {}-byte stream", me.reads, me.data.len());
        }
        let cap = buf.remaining();
        if me.frame_end != usize::MAX && me.pos + cap > me.frame_end {
            me.max_overask = me.max_overask.max(me.pos + cap - me.frame_end);
        }
        // fault exactly at this position
        if let Some((p, f)) = me.fault {
            if me.pos >= p {
                me.fault_fired = true;
                return match f {
                    RFault::Err(k) => {
                        me.ev(cap, ROut::Err(k));
                        Poll::Ready(Err(shaped_error(k, me.pos + me.reads)))
                    }
                    RFault::Eof => {
                        me.ev(cap, ROut::Eof);
                        Poll::Ready(Ok(()))
                    }
                };
            }
        }
        if cap == 0 {
            me.ev(cap, ROut::Data(0));
            return Poll::Ready(Ok(()));
        }
        if me.avail == 0 {
            // consume script steps until something becomes available
            loop {
                if me.sp < me.script.len() {
                    let st = me.script[me.sp];
                    me.sp += 1;
                    match st {
                        Step::Pending => {
                            me.pendings += 1;
                            me.ev(cap, ROut::Pending);
                            cx.waker().wake_by_ref();
                            return Poll::Pending;
                        }
                        Step::Give(k) => {
                            if k > 0 {
                                me.avail = k;
                                break;
                            }
                        }
                    }
                } else {
                    me.avail = usize::MAX;
                    break;
                }
            }
        }
        let mut limit = me.data.len() - me.pos;
        if let Some((p, _)) = me.fault {
            limit = limit.min(p - me.pos);
        }
        let n = cap.min(me.avail).min(limit);
        if n == 0 {
            // end of data
            me.ev(cap, ROut::Eof);
            return Poll::Ready(Ok(()));
        }
        buf.put_slice(&me.data[me.pos..me.pos + n]);
        me.ev(cap, ROut::Data(n));
        me.pos += n;
        if me.avail != usize::MAX {
            me.avail -= n;
        }
        Poll::Ready(Ok(()))
    }
}

// ------------------------------------------------------------------------------------------
// writers

#[derive(Clone, Copy, Debug, PartialEq, Eq)]
pub enum WStep {
    /// accept at most k bytes of the next write
    Accept(usize),
    Pending,
}

#[derive(Clone, Copy, Debug, PartialEq, Eq)]
pub enum WFault {
    Err(io::ErrorKind),
    /// Ok(0)
    Zero,
    /// one Interrupted, then normal service (sync sinks only)
    InterruptedOnce,
}

pub struct ScriptedWriter<'a> {
    pub got: Vec<u8>,
    script: &'a [WStep],
    sp: usize,
    pub fault: Option<(usize, WFault)>,
    pub fault_fired: bool,
    pub writes: usize,
    pub pendings: usize,
    pub default_accept: usize,
    /// a gathering sink: `is_write_vectored()` is true and a vectored write takes its byte budget
    /// across the slices offered (what a socket's writev does)
    pub vectored: bool,
    pub vectored_writes: usize,
}

impl<'a> ScriptedWriter<'a> {
    pub fn new(script: &'a [WStep]) -> ScriptedWriter<'a> {
        ScriptedWriter { got: Vec::new(), script, sp: 0, fault: None, fault_fired: false, writes: 0, pendings: 0, default_accept: usize::MAX, vectored: false, vectored_writes: 0 }
    }
    pub fn gathering(mut self) -> Self {
        self.vectored = true;
        self
    }
    fn service_vectored(&mut self, bufs: &[io::IoSlice<'_>], waker: Option<&Waker>) -> Poll<io::Result<usize>> {
        self.vectored_writes += 1;
        let mut cat = Vec::new();
        for b in bufs {
            cat.extend_from_slice(b);
        }
        self.service(&cat, waker)
    }
    pub fn with_fault(mut self, pos: usize, f: WFault) -> Self {
        self.fault = Some((pos, f));
        self
    }
    fn service(&mut self, buf: &[u8], waker: Option<&Waker>) -> Poll<io::Result<usize>> {
        self.writes += 1;
        if let Some((p, f)) = self.fault {
            if self.got.len() >= p && !(f == WFault::InterruptedOnce && self.fault_fired) {
                self.fault_fired = true;
                return Poll::Ready(match f {
                    WFault::Err(k) => Err(shaped_error(k, self.got.len() + self.writes)),
                    WFault::Zero => Ok(0),
                    WFault::InterruptedOnce => Err(io::Error::new(io::ErrorKind::Interrupted, "injected")),
                });
            }
        }
        if buf.is_empty() {
            return Poll::Ready(Ok(0));
        }
        let mut k = self.default_accept;
        while self.sp < self.script.len() {
            let st = self.script[self.sp];
            self.sp += 1;
            match st {
                WStep::Pending => {
                    if let Some(w) = waker {
                        self.pendings += 1;
                        w.wake_by_ref();
                        return Poll::Pending;
                    }
                }
                WStep::Accept(a) => {
                    k = a.max(1);
                    break;
                }
            }
        }
        let mut n = buf.len().min(k);
        if let Some((p, f)) = self.fault {
            if !(f == WFault::InterruptedOnce && self.fault_fired) {
                n = n.min(p - self.got.len());
            }
        }
        self.got.extend_from_slice(&buf[..n]);
        Poll::Ready(Ok(n))
    }
}

impl<'a> AsyncWrite for ScriptedWriter<'a> {
    fn poll_write(self: Pin<&mut Self>, cx: &mut Context<'_>, buf: &[u8]) -> Poll<io::Result<usize>> {
        let w = cx.waker().clone();
        self.get_mut().service(buf, Some(&w))
    }
    fn poll_write_vectored(self: Pin<&mut Self>, cx: &mut Context<'_>, bufs: &[io::IoSlice<'_>]) -> Poll<io::Result<usize>> {
        let w = cx.waker().clone();
        let me = self.get_mut();
        if me.vectored {
            me.service_vectored(bufs, Some(&w))
        } else {
            // tokio's default: the first non-empty slice
            let first = bufs.iter().find(|b| !b.is_empty()).map(|b| &**b).unwrap_or(&[]);
            me.service(first, Some(&w))
        }
    }
    fn is_write_vectored(&self) -> bool {
        self.vectored
    }
    fn poll_flush(self: Pin<&mut Self>, _cx: &mut Context<'_>) -> Poll<io::Result<()>> {
        Poll::Ready(Ok(()))
    }
    fn poll_shutdown(self: Pin<&mut Self>, _cx: &mut Context<'_>) -> Poll<io::Result<()>> {
        Poll::Ready(Ok(()))
    }
}

impl<'a> io::Write for ScriptedWriter<'a> {
    fn write(&mut self, buf: &[u8]) -> io::Result<usize> {
        match self.service(buf, None) {
            Poll::Ready(r) => r,
            Poll::Pending => unreachable!("sync sink never pends"),
        }
    }
    fn write_vectored(&mut self, bufs: &[io::IoSlice<'_>]) -> io::Result<usize> {
        let r = if self.vectored {
            self.service_vectored(bufs, None)
        } else {
            let first = bufs.iter().find(|b| !b.is_empty()).map(|b| &**b).unwrap_or(&[]);
            self.service(first, None)
        };
        match r {
            Poll::Ready(r) => r,
            Poll::Pending => unreachable!("sync sink never pends"),
        }
    }
    fn flush(&mut self) -> io::Result<()> {
        Ok(())
    }
}

/// Counts bytes, keeps nothing.
#[derive(Default)]
pub struct CountingSink {
    pub n: usize,
}

impl io::Write for CountingSink {
    fn write(&mut self, buf: &[u8]) -> io::Result<usize> {
        self.n += buf.len();
        Ok(buf.len())
    }
    fn flush(&mut self) -> io::Result<()> {
        Ok(())
    }
}

/// A wrapper error as TLS / WebSocket / timeout adapters build them: the cause is in `source()`.
#[derive(Debug)]
struct Wrapped(io::Error);
impl std::fmt::Display for Wrapped {
    fn fmt(&self, f: &mut std::fmt::Formatter<'_>) -> std::fmt::Result {
        write!(f, "adapter error: {}", self.0)
    }
}
impl std::error::Error for Wrapped {
    fn source(&self) -> Option<&(dyn std::error::Error + 'static)> {
        Some(&self.0)
    }
}

/// The injected transport error of kind `k`, in one of the shapes real transports produce (chosen
/// by `salt`): bare kind, kind + text, an OS error code where one maps to `k`, and adapters that wrap
/// another io::Error of a *different* kind as payload or as `source()`. The property speaks of the
/// kind of the error the transport returned, i.e. the outer one.
pub fn shaped_error(k: io::ErrorKind, salt: usize) -> io::Error {
    use io::ErrorKind as K;
    let other = if k == K::WouldBlock { K::ConnectionReset } else { K::WouldBlock };
    match salt % 5 {
        0 => io::Error::new(k, "injected"),
        1 => k.into(),
        2 => {
            let code = match k {
                K::ConnectionReset => Some(104),
                K::ConnectionAborted => Some(103),
                K::BrokenPipe => Some(32),
                K::TimedOut => Some(110),
                K::PermissionDenied => Some(13),
                K::WouldBlock => Some(11),
                _ => None,
            };
            match code {
                Some(c) if io::Error::from_raw_os_error(c).kind() == k => io::Error::from_raw_os_error(c),
                _ => io::Error::new(k, "injected"),
            }
        }
        3 => io::Error::new(k, io::Error::from(other)),
        _ => io::Error::new(k, Wrapped(io::Error::new(if k == K::UnexpectedEof { K::ConnectionReset } else { K::UnexpectedEof }, "inner"))),
    }
}

pub const KINDS: [io::ErrorKind; 9] = [
    io::ErrorKind::ConnectionReset,
    io::ErrorKind::ConnectionAborted,
    io::ErrorKind::BrokenPipe,
    io::ErrorKind::TimedOut,
    io::ErrorKind::PermissionDenied,
    io::ErrorKind::WouldBlock,
    io::ErrorKind::Other,
    io::ErrorKind::UnexpectedEof,
    io::ErrorKind::InvalidData,
];

//! Evidence / violation collection shared by all monitors, the panic monitor and the
//! (hand-written, dependency-free) JSON emitter.

use std::cell::RefCell;
use std::collections::{BTreeMap, HashSet};
use std::fmt::Write as _;
use std::panic::{self, AssertUnwindSafe};
use std::sync::Once;

/// A replayable case: what was fed to which entry point.
#[derive(Clone, Debug, Default)]
pub struct Case {
    pub kind: String,
    pub fam: u8, // 3, 5 or 0 (family-independent)
    pub bytes: Vec<u8>,
    pub params: Vec<(String, String)>,
}

impl Case {
    pub fn new(kind: &str, fam: u8, bytes: &[u8]) -> Case {
        Case { kind: kind.to_string(), fam, bytes: bytes.to_vec(), params: Vec::new() }
    }
    pub fn p(mut self, k: &str, v: impl ToString) -> Case {
        self.params.push((k.to_string(), v.to_string()));
        self
    }
    pub fn get(&self, k: &str) -> Option<&str> {
        self.params.iter().find(|(a, _)| a == k).map(|(_, v)| v.as_str())
    }
    pub fn get_u64(&self, k: &str) -> Option<u64> {
        self.get(k).and_then(|v| v.parse().ok())
    }
}

#[derive(Clone, Debug)]
pub struct Violation {
    pub sig: String,
    pub what: String,
    pub case: Case,
}

pub const FP_CAP: usize = 3_000_000;
pub const SAMPLE_CAP: usize = 8;

pub struct Ctx {
    pub prop: &'static str,
    pub seed: u64,
    pub thorough: bool,
    pub evaluations: u64,
    /// distinct non-trivial cases counted without a fingerprint set (complete enumerations,
    /// where each case is visited exactly once by construction)
    pub distinct_direct: u64,
    pub fp: HashSet<u64>,
    pub fp_saturated: bool,
    pub hist: BTreeMap<String, u64>,
    pub samples: Vec<String>,
    pub violations: BTreeMap<String, (Violation, u64)>,
    pub inconclusive: u64,
    pub inconclusive_notes: Vec<String>,
    pub harness_errors: Vec<String>,
}

impl Ctx {
    pub fn new(prop: &'static str, seed: u64, thorough: bool) -> Ctx {
        Ctx {
            prop,
            seed,
            thorough,
            evaluations: 0,
            distinct_direct: 0,
            fp: HashSet::new(),
            fp_saturated: false,
            hist: BTreeMap::new(),
            samples: Vec::new(),
            violations: BTreeMap::new(),
            inconclusive: 0,
            inconclusive_notes: Vec::new(),
            harness_errors: Vec::new(),
        }
    }
    pub fn child(&self) -> Ctx {
        Ctx::new(self.prop, self.seed, self.thorough)
    }
    #[inline]
    pub fn eval(&mut self) {
        self.evaluations += 1;
    }
    #[inline]
    pub fn evals(&mut self, n: u64) {
        self.evaluations += n;
    }
    /// record a distinct non-trivial case by fingerprint
    #[inline]
    pub fn distinct(&mut self, fp: u64) {
        if self.fp.len() < FP_CAP {
            self.fp.insert(fp);
        } else {
            self.fp_saturated = true;
        }
    }
    #[inline]
    pub fn count(&mut self, key: &str) {
        self.countn(key, 1);
    }
    pub fn countn(&mut self, key: &str, n: u64) {
        if let Some(v) = self.hist.get_mut(key) {
            *v += n;
        } else {
            self.hist.insert(key.to_string(), n);
        }
    }
    pub fn sample(&mut self, f: impl FnOnce() -> String) {
        if self.samples.len() < SAMPLE_CAP {
            let s = f();
            self.samples.push(s);
        }
    }
    pub fn violation(&mut self, sig: impl Into<String>, what: impl Into<String>, case: Case) {
        let sig = sig.into();
        if let Some(e) = self.violations.get_mut(&sig) {
            e.1 += 1;
            // keep the smallest witness
            if case.bytes.len() < e.0.case.bytes.len() {
                e.0 = Violation { sig, what: what.into(), case };
            }
        } else if self.violations.len() < 400 {
            self.violations.insert(sig.clone(), (Violation { sig, what: what.into(), case }, 1));
        }
    }
    pub fn inconclusive(&mut self, note: impl Into<String>) {
        self.inconclusive += 1;
        if self.inconclusive_notes.len() < 16 {
            self.inconclusive_notes.push(note.into());
        }
    }
    pub fn harness_error(&mut self, note: impl Into<String>) {
        if self.harness_errors.len() < 32 {
            self.harness_errors.push(note.into());
        }
    }
    pub fn merge(&mut self, o: Ctx) {
        self.evaluations += o.evaluations;
        self.distinct_direct += o.distinct_direct;
        for f in o.fp {
            if self.fp.len() < FP_CAP * 4 {
                self.fp.insert(f);
            } else {
                self.fp_saturated = true;
            }
        }
        self.fp_saturated |= o.fp_saturated;
        for (k, v) in o.hist {
            *self.hist.entry(k).or_insert(0) += v;
        }
        for s in o.samples {
            if self.samples.len() < SAMPLE_CAP * 2 {
                self.samples.push(s);
            }
        }
        for (k, (v, n)) in o.violations {
            if let Some(e) = self.violations.get_mut(&k) {
                e.1 += n;
                if v.case.bytes.len() < e.0.case.bytes.len() {
                    e.0 = v;
                }
            } else {
                self.violations.insert(k, (v, n));
            }
        }
        self.inconclusive += o.inconclusive;
        for n in o.inconclusive_notes {
            if self.inconclusive_notes.len() < 16 {
                self.inconclusive_notes.push(n);
            }
        }
        for n in o.harness_errors {
            if self.harness_errors.len() < 32 {
                self.harness_errors.push(n);
            }
        }
    }
    pub fn distinct_total(&self) -> u64 {
        self.distinct_direct + self.fp.len() as u64
    }
}

// ---------------------------------------------------------------------------------------
// panic monitor

thread_local! {
    static LAST_PANIC: RefCell<Option<String>> = const { RefCell::new(None) };
    static QUIET: RefCell<bool> = const { RefCell::new(false) };
}
static HOOK: Once = Once::new();

pub fn install_panic_hook() {
    HOOK.call_once(|| {
        let prev = panic::take_hook();
        panic::set_hook(Box::new(move |info| {
            let loc = info.location().map(|l| format!("{}:{}", l.file(), l.line())).unwrap_or_default();
            let msg = if let Some(s) = info.payload().downcast_ref::<&str>() {
                s.to_string()
            } else if let Some(s) = info.payload().downcast_ref::<String>() {
                s.clone()
            } else {
                "<non-string panic>".to_string()
            };
            let quiet = QUIET.with(|q| *q.borrow());
            LAST_PANIC.with(|p| *p.borrow_mut() = Some(format!("{} @ {}", msg, loc)));
            if !quiet {
                prev(info);
            }
        }));
    });
}

/// Run `f`, turning a panic into `Err(message @ location)`.
pub fn guard<T>(f: impl FnOnce() -> T) -> Result<T, String> {
    QUIET.with(|q| *q.borrow_mut() = true);
    let r = panic::catch_unwind(AssertUnwindSafe(f));
    QUIET.with(|q| *q.borrow_mut() = false);
    match r {
        Ok(v) => Ok(v),
        Err(_) => Err(LAST_PANIC.with(|p| p.borrow_mut().take()).unwrap_or_else(|| "panic".into())),
    }
}

/// Stable short form of a panic message for signatures: strip numbers that vary per case.
pub fn panic_sig(msg: &str) -> String {
    // keep "message @ file:line" but drop digits inside the message part
    let (m, loc) = match msg.rfind(" @ ") {
        Some(i) => (&msg[..i], &msg[i + 3..]),
        None => (msg, ""),
    };
    let mut out = String::new();
    let mut last_digit = false;
    for c in m.chars().take(80) {
        if c.is_ascii_digit() {
            if !last_digit {
                out.push('N');
            }
            last_digit = true;
        } else {
            last_digit = false;
            out.push(if c.is_whitespace() { '_' } else { c });
        }
    }
    let loc = loc.rsplit("/src/").next().unwrap_or(loc);
    format!("{}@{}", out, loc)
}

// ---------------------------------------------------------------------------------------
// hex + JSON helpers

pub fn hex(b: &[u8]) -> String {
    let mut s = String::with_capacity(b.len() * 2);
    for x in b {
        let _ = write!(s, "{:02x}", x);
    }
    s
}

pub fn hex_short(b: &[u8]) -> String {
    if b.len() <= 96 {
        hex(b)
    } else {
        format!("{}..(+{} bytes)..{}", hex(&b[..64]), b.len() - 80, hex(&b[b.len() - 16..]))
    }
}

pub fn unhex(s: &str) -> Option<Vec<u8>> {
    let s = s.trim();
    if s.len() % 2 != 0 {
        return None;
    }
    let mut v = Vec::with_capacity(s.len() / 2);
    let b = s.as_bytes();
    for i in (0..b.len()).step_by(2) {
        let h = (b[i] as char).to_digit(16)?;
        let l = (b[i + 1] as char).to_digit(16)?;
        v.push((h * 16 + l) as u8);
    }
    Some(v)
}

pub fn jstr(s: &str) -> String {
    let mut o = String::with_capacity(s.len() + 2);
    o.push('"');
    for c in s.chars() {
        match c {
            '"' => o.push_str("\\\""),
            '\\' => o.push_str("\\\\"),
            '\n' => o.push_str("\\n"),
            '\r' => o.push_str("\\r"),
            '\t' => o.push_str("\\t"),
            c if (c as u32) < 0x20 => {
                let _ = write!(o, "\\u{:04x}", c as u32);
            }
            c => o.push(c),
        }
    }
    o.push('"');
    o
}

/// Serialise a case into the line-oriented replay format.
pub fn case_to_text(prop: &str, profile: &str, v: &Violation) -> String {
    let mut s = String::new();
    let _ = writeln!(s, "property={}", prop);
    let _ = writeln!(s, "profile={}", profile);
    let _ = writeln!(s, "sig={}", v.sig.replace('\n', " "));
    let _ = writeln!(s, "what={}", v.what.replace('\n', " "));
    let _ = writeln!(s, "kind={}", v.case.kind);
    let _ = writeln!(s, "family={}", v.case.fam);
    for (k, val) in &v.case.params {
        let _ = writeln!(s, "param.{}={}", k, val.replace('\n', " "));
    }
    let _ = writeln!(s, "bytes={}", hex(&v.case.bytes));
    s
}

pub fn case_from_text(t: &str) -> Option<(String, Case)> {
    let mut prop = String::new();
    let mut c = Case::default();
    for line in t.lines() {
        let (k, v) = line.split_once('=')?;
        match k {
            "property" => prop = v.to_string(),
            "kind" => c.kind = v.to_string(),
            "family" => c.fam = v.parse().ok()?,
            "bytes" => c.bytes = unhex(v)?,
            k if k.starts_with("param.") => c.params.push((k[6..].to_string(), v.to_string())),
            _ => {}
        }
    }
    Some((prop, c))
}

/// Layer result written by one `mqv` process; the `check` driver merges layers into the
/// schema-conformant evidence file.
pub fn write_layer_json(ctx: &Ctx, profile: &str, wall_s: f64, rule: &str, exhaustive: bool, extra: &[(String, String)], replay_dir: &str, out: &str) {
    let mut s = String::new();
    s.push_str("{\n");
    let _ = writeln!(s, " \"property_id\": {},", jstr(ctx.prop));
    let _ = writeln!(s, " \"profile\": {},", jstr(profile));
    let _ = writeln!(s, " \"tier\": {},", jstr(if ctx.thorough { "thorough" } else { "quick" }));
    let _ = writeln!(s, " \"seed\": {},", ctx.seed);
    let _ = writeln!(s, " \"wall_s\": {:.3},", wall_s);
    let _ = writeln!(s, " \"evaluations\": {},", ctx.evaluations);
    let _ = writeln!(s, " \"distinct_nontrivial\": {},", ctx.distinct_total());
    let _ = writeln!(s, " \"distinct_saturated\": {},", ctx.fp_saturated);
    let _ = writeln!(s, " \"exhaustive\": {},", exhaustive);
    let _ = writeln!(s, " \"rule\": {},", jstr(rule));
    let _ = writeln!(s, " \"inconclusive\": {},", ctx.inconclusive);
    s.push_str(" \"inconclusive_notes\": [");
    s.push_str(&ctx.inconclusive_notes.iter().map(|x| jstr(x)).collect::<Vec<_>>().join(", "));
    s.push_str("],\n \"harness_errors\": [");
    s.push_str(&ctx.harness_errors.iter().map(|x| jstr(x)).collect::<Vec<_>>().join(", "));
    s.push_str("],\n \"samples\": [");
    s.push_str(&ctx.samples.iter().map(|x| jstr(x)).collect::<Vec<_>>().join(",\n   "));
    s.push_str("],\n \"observed\": {");
    let mut first = true;
    for (k, v) in &ctx.hist {
        if !first {
            s.push_str(", ");
        }
        first = false;
        let _ = write!(s, "\n   {}: {}", jstr(k), v);
    }
    s.push_str("},\n \"extra\": {");
    s.push_str(&extra.iter().map(|(k, v)| format!("{}: {}", jstr(k), jstr(v))).collect::<Vec<_>>().join(", "));
    s.push_str("},\n \"violations\": [");
    let mut first = true;
    for (sig, (v, n)) in &ctx.violations {
        let h = crate::rng::fnv(sig);
        let path = format!("{}/{}-{}-{:012x}.replay", replay_dir, ctx.prop, profile, h & 0xffff_ffff_ffff);
        let _ = std::fs::create_dir_all(replay_dir);
        let _ = std::fs::write(&path, case_to_text(ctx.prop, profile, v));
        if !first {
            s.push(',');
        }
        first = false;
        let _ = write!(
            s,
            "\n   {{\"sig\": {}, \"what\": {}, \"count\": {}, \"replay\": {}}}",
            jstr(sig),
            jstr(&v.what),
            n,
            jstr(&path)
        );
    }
    s.push_str("]\n}\n");
    std::fs::write(out, s).expect("write layer json");
}

//! Allocation meter: a counting GlobalAlloc that records, per thread, the largest single
//! request since the last reset, and refuses absurd requests (> 1 GiB) by writing a replay
//! file for the in-flight case and exiting the process with status 78 (an allocation failure
//! would abort and escape catch_unwind anyway; this way the case is attributed).

use std::alloc::{GlobalAlloc, Layout, System};
use std::cell::Cell;

pub struct Meter;

thread_local! {
    static MAXREQ: Cell<usize> = const { Cell::new(0) };
    static CUR: Cell<(*const u8, usize, u8, u32)> = const { Cell::new((std::ptr::null(), 0, 0, 0)) };
}

pub const DENY_ABOVE: usize = 1 << 30;
/// what a decoder may legitimately reserve for one frame: the declared remaining length (< 2^28)
pub const LEGIT_MAX: usize = (1 << 28) + (64 << 10);

static mut PROP: [u8; 8] = *b"C03\0\0\0\0\0";
static mut REPLAY_DIR: [u8; 256] = [0; 256];

pub fn configure(prop: &str, replay_dir: &str) {
    unsafe {
        let p = prop.as_bytes();
        let dst = &mut *std::ptr::addr_of_mut!(PROP);
        dst.fill(0);
        dst[..p.len().min(7)].copy_from_slice(&p[..p.len().min(7)]);
        let d = replay_dir.as_bytes();
        let dst = &mut *std::ptr::addr_of_mut!(REPLAY_DIR);
        dst.fill(0);
        dst[..d.len().min(200)].copy_from_slice(&d[..d.len().min(200)]);
    }
}

// Breadcrumb slots readable by the hang watchdog thread.
use std::sync::atomic::{AtomicPtr, AtomicU64, AtomicUsize, Ordering};

pub struct Slot {
    ptr: AtomicPtr<u8>,
    len: AtomicUsize,
    meta: AtomicUsize, // fam << 32 | entry
    seq: AtomicU64,
}

const NSLOTS: usize = 64;
#[allow(clippy::declare_interior_mutable_const)]
const EMPTY_SLOT: Slot = Slot { ptr: AtomicPtr::new(std::ptr::null_mut()), len: AtomicUsize::new(0), meta: AtomicUsize::new(0), seq: AtomicU64::new(0) };
static SLOTS: [Slot; NSLOTS] = [EMPTY_SLOT; NSLOTS];
static NEXT_SLOT: AtomicUsize = AtomicUsize::new(0);

thread_local! {
    static MYSLOT: Cell<usize> = const { Cell::new(usize::MAX) };
}

fn my_slot() -> Option<&'static Slot> {
    let mut i = MYSLOT.with(|s| s.get());
    if i == usize::MAX {
        i = NEXT_SLOT.fetch_add(1, Ordering::SeqCst);
        MYSLOT.with(|s| s.set(i));
    }
    SLOTS.get(i)
}

/// Declare the input of the monitored call about to run on this thread.
#[inline]
pub fn set_current(bytes: &[u8], fam: u8, entry: u32) {
    CUR.with(|c| c.set((bytes.as_ptr(), bytes.len(), fam, entry)));
    if let Some(s) = my_slot() {
        s.len.store(bytes.len(), Ordering::Relaxed);
        s.meta.store(((fam as usize) << 32) | entry as usize, Ordering::Relaxed);
        s.ptr.store(bytes.as_ptr() as *mut u8, Ordering::Release);
        s.seq.fetch_add(1, Ordering::Release);
    }
}

#[inline]
pub fn clear_current() {
    CUR.with(|c| c.set((std::ptr::null(), 0, 0, 0)));
    if let Some(s) = my_slot() {
        s.ptr.store(std::ptr::null_mut(), Ordering::Release);
        s.seq.fetch_add(1, Ordering::Release);
    }
}

/// Hang watchdog: if one monitored call makes no progress for `secs` seconds, write the in-flight
/// input as a replay file, print a HANG line and exit with status 79. The driver then re-runs that
/// input alone under a short limit; only an input that never finishes there is reported as
/// non-termination (wall clock alone never produces a violation).
pub fn start_watchdog(secs: u64) {
    std::thread::Builder::new()
        .name("mqv-watchdog".into())
        .spawn(move || {
            let mut last = [0u64; NSLOTS];
            let mut stale = [0u64; NSLOTS];
            loop {
                std::thread::sleep(std::time::Duration::from_secs(2));
                for (i, s) in SLOTS.iter().enumerate() {
                    let p = s.ptr.load(Ordering::Acquire);
                    let q = s.seq.load(Ordering::Acquire);
                    if p.is_null() || q != last[i] {
                        last[i] = q;
                        stale[i] = 0;
                        continue;
                    }
                    stale[i] += 2;
                    if stale[i] >= secs {
                        let len = s.len.load(Ordering::Relaxed);
                        let meta = s.meta.load(Ordering::Relaxed);
                        hang(p, len, (meta >> 32) as u8, meta as u32);
                    }
                }
            }
        })
        .expect("spawn watchdog");
}

extern "C" {
    fn signal(signum: i32, handler: usize) -> usize;
}

extern "C" fn on_fatal_signal(sig: i32) {
    // async-signal-safe: no allocation, only write/open/_exit
    let (ptr, len, fam, entry) = CUR.try_with(|c| c.get()).unwrap_or((std::ptr::null(), 0, 0, 0));
    crash_report(sig, ptr, len, fam, entry);
}

/// Turn a process-level crash (abort from a non-unwinding panic such as std's unsafe-precondition
/// checks, SIGSEGV, SIGBUS, SIGILL) into an attributed report: the in-flight input of the crashing
/// thread is written as a replay file, a CRASH line is printed and the process exits with status 80.
pub fn install_crash_handler() {
    if cfg!(miri) {
        return;
    }
    unsafe {
        for s in [6, 11, 7, 4] {
            signal(s, on_fatal_signal as usize);
        }
    }
}

fn crash_report(sig: i32, ptr: *const u8, len: usize, fam: u8, entry: u32) -> ! {
    let prop = unsafe { cstr(&*std::ptr::addr_of!(PROP)) };
    let dir = unsafe { cstr(&*std::ptr::addr_of!(REPLAY_DIR)) };
    let mut path = Buf { b: [0; 8192], n: 0 };
    path.push(dir);
    path.push(b"/");
    path.push(prop);
    path.push(b"-crash-");
    path.num(unsafe { getpid() } as usize);
    path.push(b".replay\0");
    let mut body = Buf { b: [0; 8192], n: 0 };
    body.push(b"property=");
    body.push(prop);
    body.push(b"\nprofile=crash-handler\nsig=");
    body.push(prop);
    body.push(b":process-crash:signal");
    body.num(sig as usize);
    body.push(b"\nwhat=the process was killed by signal ");
    body.num(sig as usize);
    body.push(b" during a monitored call (abort from a non-unwinding panic / unsafe-precondition check, or a memory fault)\nkind=bytes\nfamily=");
    body.num(fam as usize);
    body.push(b"\nparam.entry=");
    body.num(entry as usize);
    body.push(b"\nbytes=");
    if !ptr.is_null() {
        let s = unsafe { std::slice::from_raw_parts(ptr, len.min(3000)) };
        body.hex(s);
    }
    body.push(b"\n");
    unsafe {
        let fd = open(path.b.as_ptr(), 0o1101, 0o644);
        if fd >= 0 {
            write(fd, body.b.as_ptr(), body.n);
            close(fd);
        }
        let mut line = Buf { b: [0; 8192], n: 0 };
        line.push(b"CRASH property=");
        line.push(prop);
        line.push(b" signal=");
        line.num(sig as usize);
        line.push(b" replay=");
        line.push(&path.b[..path.n - 1]);
        line.push(b"\n");
        write(1, line.b.as_ptr(), line.n);
        _exit(80);
    }
}

fn hang(ptr: *const u8, len: usize, fam: u8, entry: u32) -> ! {
    let prop = unsafe { cstr(&*std::ptr::addr_of!(PROP)) };
    let dir = unsafe { cstr(&*std::ptr::addr_of!(REPLAY_DIR)) };
    let mut path = Buf { b: [0; 8192], n: 0 };
    path.push(dir);
    path.push(b"/");
    path.push(prop);
    path.push(b"-hang-");
    path.num(unsafe { getpid() } as usize);
    path.push(b".replay\0");
    let mut body = Buf { b: [0; 8192], n: 0 };
    body.push(b"property=");
    body.push(prop);
    body.push(b"\nprofile=watchdog\nsig=");
    body.push(prop);
    body.push(b":non-termination:entry");
    body.num(entry as usize);
    body.push(b"\nwhat=a monitored decoder call made no progress\nkind=bytes\nfamily=");
    body.num(fam as usize);
    body.push(b"\nparam.entry=");
    body.num(entry as usize);
    body.push(b"\nbytes=");
    let s = unsafe { std::slice::from_raw_parts(ptr, len.min(3000)) };
    body.hex(s);
    body.push(b"\n");
    unsafe {
        let fd = open(path.b.as_ptr(), 0o1101, 0o644);
        if fd >= 0 {
            write(fd, body.b.as_ptr(), body.n);
            close(fd);
        }
        let mut line = Buf { b: [0; 8192], n: 0 };
        line.push(b"HANG property=");
        line.push(prop);
        line.push(b" replay=");
        line.push(&path.b[..path.n - 1]);
        line.push(b"\n");
        write(1, line.b.as_ptr(), line.n);
        _exit(79);
    }
}

#[inline]
pub fn reset_max() {
    MAXREQ.with(|m| m.set(0));
}

#[inline]
pub fn max_request() -> usize {
    MAXREQ.with(|m| m.get())
}

extern "C" {
    fn write(fd: i32, buf: *const u8, n: usize) -> isize;
    fn open(path: *const u8, flags: i32, mode: u32) -> i32;
    fn close(fd: i32) -> i32;
    fn _exit(code: i32) -> !;
    fn getpid() -> i32;
}

struct Buf {
    b: [u8; 8192],
    n: usize,
}

impl Buf {
    fn push(&mut self, s: &[u8]) {
        for x in s {
            if self.n < self.b.len() {
                self.b[self.n] = *x;
                self.n += 1;
            }
        }
    }
    fn num(&mut self, mut v: usize) {
        let mut t = [0u8; 24];
        let mut i = t.len();
        if v == 0 {
            i -= 1;
            t[i] = b'0';
        }
        while v > 0 {
            i -= 1;
            t[i] = b'0' + (v % 10) as u8;
            v /= 10;
        }
        let s = t;
        self.push(&s[i..]);
    }
    fn hex(&mut self, s: &[u8]) {
        const H: &[u8; 16] = b"0123456789abcdef";
        for x in s {
            self.push(&[H[(x >> 4) as usize], H[(x & 15) as usize]]);
        }
    }
}

fn cstr(a: &[u8]) -> &[u8] {
    let n = a.iter().position(|b| *b == 0).unwrap_or(a.len());
    &a[..n]
}

#[cold]
fn deny(size: usize) -> ! {
    // no allocation from here on
    let (ptr, len, fam, entry) = CUR.with(|c| c.get());
    let prop = unsafe { cstr(&*std::ptr::addr_of!(PROP)) };
    let dir = unsafe { cstr(&*std::ptr::addr_of!(REPLAY_DIR)) };
    let mut path = Buf { b: [0; 8192], n: 0 };
    path.push(dir);
    path.push(b"/");
    path.push(prop);
    path.push(b"-alloc-");
    path.num(unsafe { getpid() } as usize);
    path.push(b".replay\0");
    let mut body = Buf { b: [0; 8192], n: 0 };
    body.push(b"property=");
    body.push(prop);
    body.push(b"\nprofile=alloc-meter\nsig=");
    body.push(prop);
    body.push(b":alloc>1GiB:entry");
    body.num(entry as usize);
    body.push(b"\nwhat=a single allocation request of ");
    body.num(size);
    body.push(b" bytes during one monitored call\nkind=bytes\nfamily=");
    body.num(fam as usize);
    body.push(b"\nparam.entry=");
    body.num(entry as usize);
    body.push(b"\nbytes=");
    if !ptr.is_null() {
        let s = unsafe { std::slice::from_raw_parts(ptr, len.min(3000)) };
        body.hex(s);
    }
    body.push(b"\n");
    unsafe {
        let fd = open(path.b.as_ptr(), 0o1101, 0o644); // O_WRONLY|O_CREAT|O_TRUNC
        if fd >= 0 {
            write(fd, body.b.as_ptr(), body.n);
            close(fd);
        }
        let mut line = Buf { b: [0; 8192], n: 0 };
        line.push(b"VIOLATION property=");
        line.push(prop);
        line.push(b" replay=");
        line.push(&path.b[..path.n - 1]);
        line.push(b"\n");
        write(1, line.b.as_ptr(), line.n);
        _exit(78);
    }
}

unsafe impl GlobalAlloc for Meter {
    #[inline]
    unsafe fn alloc(&self, l: Layout) -> *mut u8 {
        let s = l.size();
        if s > 4096 {
            let _ = MAXREQ.try_with(|m| {
                if s > m.get() {
                    m.set(s)
                }
            });
            if s > DENY_ABOVE {
                deny(s);
            }
        }
        System.alloc(l)
    }
    #[inline]
    unsafe fn dealloc(&self, p: *mut u8, l: Layout) {
        System.dealloc(p, l)
    }
    #[inline]
    unsafe fn alloc_zeroed(&self, l: Layout) -> *mut u8 {
        let s = l.size();
        if s > 4096 {
            let _ = MAXREQ.try_with(|m| {
                if s > m.get() {
                    m.set(s)
                }
            });
            if s > DENY_ABOVE {
                deny(s);
            }
        }
        System.alloc_zeroed(l)
    }
    #[inline]
    unsafe fn realloc(&self, p: *mut u8, l: Layout, n: usize) -> *mut u8 {
        if n > 4096 {
            let _ = MAXREQ.try_with(|m| {
                if n > m.get() {
                    m.set(n)
                }
            });
            if n > DENY_ABOVE {
                deny(n);
            }
        }
        System.realloc(p, l, n)
    }
}

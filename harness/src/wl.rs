//! Shared workload pieces: delivery schedules (G5), hostile byte strings (G4), parallel runner.

use crate::ev::Ctx;
use crate::io::{Step, WStep};
use crate::refenc::{Frame, Role};
use crate::refm::*;
use crate::rng::Rng;

static SHARD: std::sync::atomic::AtomicUsize = std::sync::atomic::AtomicUsize::new(0);
static SHARDS: std::sync::atomic::AtomicUsize = std::sync::atomic::AtomicUsize::new(1);

pub fn set_shard(i: usize, total: usize) {
    SHARD.store(i, std::sync::atomic::Ordering::SeqCst);
    SHARDS.store(total.max(1), std::sync::atomic::Ordering::SeqCst);
}

/// (index, total) of this process among the shard processes of a layer; (0, 1) when unsharded.
pub fn shard() -> (usize, usize) {
    (SHARD.load(std::sync::atomic::Ordering::SeqCst), SHARDS.load(std::sync::atomic::Ordering::SeqCst))
}

pub fn nworkers() -> usize {
    if cfg!(miri) {
        return 1;
    }
    std::env::var("MQV_WORKERS").ok().and_then(|v| v.parse().ok()).unwrap_or_else(|| {
        std::thread::available_parallelism().map(|n| n.get()).unwrap_or(4).min(16)
    })
}

/// Run `f(worker, nworkers, ctx, rng)` on all workers and merge their contexts.
pub fn par<F>(ctx: &mut Ctx, f: F)
where
    F: Fn(usize, usize, &mut Ctx, &mut Rng) + Sync,
{
    let n = nworkers();
    if n == 1 {
        // one worker per process: the process is shard `i` of `total` (Miri / valgrind layers)
        let (i, total) = shard();
        let mut r = Rng::for_worker(ctx.seed, ctx.prop, i as u64);
        let mut c = ctx.child();
        if let Err(pm) = crate::ev::guard(|| f(i, total, &mut c, &mut r)) {
            unguarded_panic(&mut c, &pm);
        }
        ctx.merge(c);
        return;
    }
    let results: Vec<Ctx> = std::thread::scope(|s| {
        let hs: Vec<_> = (0..n)
            .map(|w| {
                let mut c = ctx.child();
                let f = &f;
                let seed = ctx.seed;
                let prop = ctx.prop;
                std::thread::Builder::new()
                    .stack_size(16 << 20)
                    .spawn_scoped(s, move || {
                        crate::ev::install_panic_hook();
                        let mut r = Rng::for_worker(seed, prop, w as u64);
                        if let Err(pm) = crate::ev::guard(|| f(w, n, &mut c, &mut r)) {
                            unguarded_panic(&mut c, &pm);
                        }
                        c
                    })
                    .expect("spawn")
            })
            .collect();
        hs.into_iter().map(|h| h.join().expect("worker panicked outside a guard")).collect()
    });
    for c in results {
        ctx.merge(c);
    }
}

/// A panic that escaped the per-case guards. If it was raised inside the crate under test it is a
/// violation (the crate panicked on some input of this property's workload); if it was raised in
/// the harness or in std on the harness's behalf it is a harness error, never a verdict.
fn unguarded_panic(c: &mut Ctx, pm: &str) {
    let loc = pm.rsplit(" @ ").next().unwrap_or("");
    let in_crate = loc.starts_with('/') && !loc.starts_with("/rustc/") && loc.contains("/src/") && !loc.contains("/harness/") && !loc.contains("/.cargo/");
    if in_crate {
        c.violation(
            format!("{}:panic-in-crate:{}", c.prop, crate::ev::panic_sig(pm)),
            format!("the crate panicked while the monitor's workload was running (outside a per-case guard, so the exact input is not recorded): {}", pm),
            crate::ev::Case::new("unguarded", 0, &[]),
        );
    } else {
        c.harness_error(format!("a monitor worker panicked outside the crate under test: {}", pm));
    }
}

// ------------------------------------------------------------------------------------------
// G5: delivery schedules

/// Random schedule for a stream of `len` bytes whose fixed header is `hdr` bytes long.
pub fn rand_schedule(r: &mut Rng, len: usize, hdr: usize) -> Vec<Step> {
    rand_schedule_styled(r, len, hdr, false)
}

/// `block`: force the block-sized delivery style (cuts at multiples of a power of two).
pub fn rand_schedule_styled(r: &mut Rng, len: usize, hdr: usize, block: bool) -> Vec<Step> {
    let mut s = Vec::new();
    if len == 0 {
        if r.bool() {
            s.push(Step::Pending);
        }
        return s;
    }
    let style = if len > 300 && (block || r.chance(1, 4)) { 6 } else { r.below(6) };
    let pend_p = match r.below(4) {
        0 => 0,
        1 => 1,
        2 => 4,
        _ => 8,
    }; // out of 8
    let mut cuts: Vec<usize> = Vec::new();
    match style {
        0 => {
            // one byte at a time (bounded for big streams: first 64 and last 8 bytes)
            for i in 1..len.min(64) {
                cuts.push(i);
            }
            for i in len.saturating_sub(8)..len {
                cuts.push(i);
            }
        }
        1 => {
            let n = r.range(1, 12);
            for _ in 0..n {
                cuts.push(r.range(1, len.max(2) - 1).min(len));
            }
        }
        2 => {
            // structure edges: after control byte, inside the length, first/last body byte
            for e in [1usize, 2, 3, 4, hdr.saturating_sub(1), hdr, hdr + 1, hdr + 2, len - 1] {
                if e > 0 && e < len && r.bool() {
                    cuts.push(e);
                }
            }
        }
        3 => {
            cuts.push(hdr.min(len.saturating_sub(1)).max(1));
        }
        4 => {
            let k = r.range(1, 5);
            let mut p = k;
            while p < len && cuts.len() < 256 {
                cuts.push(p);
                p += k;
            }
        }
        6 => {
            // block-sized deliveries: cuts at multiples of a power of two (256..64 KiB) counted from the
            // stream start or from the body start, optionally one byte off — where chunked readers,
            // growth steps and staging buffers of an implementation change behaviour
            let blk = 1usize << r.range(8, 16);
            let base = if r.bool() { hdr } else { 0 };
            let off = *r.pick(&[0usize, 0, 1, blk - 1]);
            let mut p = base + blk + off;
            while p < len && cuts.len() < 64 {
                cuts.push(p);
                p += blk;
            }
            if r.bool() {
                cuts.push(hdr.min(len - 1));
            }
        }
        _ => {}
    }
    cuts.retain(|c| *c > 0 && *c < len);
    cuts.sort_unstable();
    cuts.dedup();
    let mut prev = 0;
    for c in cuts.iter().chain(std::iter::once(&len)) {
        if r.below(8) < pend_p {
            s.push(Step::Pending);
            if r.chance(1, 8) {
                s.push(Step::Pending);
            }
        }
        s.push(Step::Give(c - prev));
        prev = *c;
    }
    // sometimes a Pending before the (EOF) read after the last byte
    if r.chance(1, 4) {
        s.push(Step::Pending);
    }
    s
}

pub fn schedule_text(s: &[Step]) -> String {
    let mut o = String::new();
    for st in s {
        match st {
            Step::Give(k) => o.push_str(&format!("g{} ", k)),
            Step::Pending => o.push_str("P "),
        }
    }
    o.trim_end().to_string()
}

pub fn schedule_parse(t: &str) -> Vec<Step> {
    t.split_whitespace()
        .filter_map(|w| {
            if w == "P" {
                Some(Step::Pending)
            } else {
                w.strip_prefix('g').and_then(|n| n.parse().ok()).map(Step::Give)
            }
        })
        .collect()
}

pub fn rand_wschedule(r: &mut Rng, len: usize) -> Vec<WStep> {
    let mut s = Vec::new();
    let style = r.below(6);
    let mut left = len;
    let mut guard = 0;
    if style == 5 {
        // a short first write (inside the packet head), an optional stall, then the sink takes the rest
        // in one or two large writes: what a nearly full socket buffer does to a pipelined sender
        let k = r.range(1, 24.min(len.max(1)));
        s.push(WStep::Accept(k));
        if r.bool() {
            s.push(WStep::Pending);
        }
        if r.bool() && len > k + 1 {
            s.push(WStep::Accept(r.range(1, len - k)));
        }
        s.push(WStep::Accept(len));
        return s;
    }
    while left > 0 && guard < 4096 {
        guard += 1;
        if r.chance(1, 4) {
            s.push(WStep::Pending);
        }
        let k = match style {
            0 => 1,
            1 => left,
            2 => r.range(1, 7),
            3 => r.range(1, left.max(1)),
            _ => {
                if r.bool() {
                    1
                } else {
                    r.range(1, 64)
                }
            }
        };
        s.push(WStep::Accept(k));
        left -= k.min(left);
    }
    s
}

pub fn wschedule_text(s: &[WStep]) -> String {
    let mut o = String::new();
    for st in s {
        match st {
            WStep::Accept(k) => o.push_str(&format!("a{} ", k)),
            WStep::Pending => o.push_str("P "),
        }
    }
    o.trim_end().to_string()
}

pub fn wschedule_parse(t: &str) -> Vec<WStep> {
    t.split_whitespace()
        .filter_map(|w| {
            if w == "P" {
                Some(WStep::Pending)
            } else {
                w.strip_prefix('a').and_then(|n| n.parse().ok()).map(WStep::Accept)
            }
        })
        .collect()
}

// ------------------------------------------------------------------------------------------
// G4: hostile byte strings

const EVIL_BYTES: [u8; 8] = [0, 1, 2, 3, 0x7f, 0x80, 0xc0, 0xff];

/// Byte-level corruption of an encoding (result is an arbitrary byte string, not re-framed).
pub fn mutate_bytes(r: &mut Rng, src: &[u8], other: &[u8]) -> Vec<u8> {
    let mut b = src.to_vec();
    let n = r.range(1, 3);
    for _ in 0..n {
        if b.is_empty() {
            b.push(r.u8());
            continue;
        }
        let i = r.below(b.len() as u64) as usize;
        match r.below(14) {
            0 | 1 => b[i] ^= 1 << r.below(8),
            2 | 3 => b[i] = *r.pick(&EVIL_BYTES),
            4 => b[i] = r.u8(),
            5 => {
                b.remove(i);
            }
            6 => b.insert(i, r.u8()),
            7 => b.truncate(i),
            8 => {
                let k = r.range(1, 8);
                let ext = r.bytes(k);
                b.extend_from_slice(&ext);
            }
            9 => {
                // splice the tail of another packet
                if !other.is_empty() {
                    let j = r.below(other.len() as u64) as usize;
                    b.truncate(i);
                    b.extend_from_slice(&other[j..]);
                }
            }
            10 => {
                // edit the remaining length byte(s)
                if b.len() >= 2 {
                    match r.below(6) {
                        0 => b[1] = b[1].wrapping_add(1),
                        1 => b[1] = b[1].wrapping_sub(1),
                        2 => b[1] = 0,
                        3 => b[1] = 0x7f,
                        4 => {
                            // maximal remaining length
                            b.splice(1..2, [0xff, 0xff, 0xff, 0x7f]);
                        }
                        _ => {
                            // five-byte length
                            b.splice(1..2, [0xff, 0xff, 0xff, 0xff, 0x01]);
                        }
                    }
                }
            }
            11 => {
                // duplicate a slice
                let j = r.range(i, b.len());
                let sl = b[i..j].to_vec();
                b.splice(i..i, sl);
            }
            12 => {
                // a 2-byte big-endian field somewhere set to an extreme
                if i + 1 < b.len() {
                    let v: u16 = *r.pick(&[0u16, 1, 0xff, 0x100, 0x7fff, 0xffff]);
                    b[i] = (v >> 8) as u8;
                    b[i + 1] = v as u8;
                }
            }
            _ => {
                // control byte from another type
                b[0] = (r.range(0, 15) as u8) << 4 | (r.below(16) as u8);
            }
        }
    }
    b
}

/// Re-frame arbitrary body bytes under a control byte so that the declared length matches.
pub fn frame_of(ctl: u8, body: &[u8]) -> Vec<u8> {
    let mut v = vec![ctl];
    v.extend_from_slice(&varint_enc(body.len() as u64));
    v.extend_from_slice(body);
    v
}

/// Take a (possibly corrupted) encoding and force its declared remaining length to match the
/// bytes that follow the header it has; returns None if it has no parsable header.
pub fn reframe_bytes(b: &[u8]) -> Option<Vec<u8>> {
    if b.is_empty() {
        return None;
    }
    match varint_dec(&b[1..]) {
        VarDec::Ok(_, n, _) => Some(frame_of(b[0], &b[1 + n..])),
        _ => None,
    }
}

/// Structure-aware corruption of a segmented reference frame; lengths are recomputed unless
/// the operator is itself a length edit. Returns a description of what was done.
pub fn mutate_frame(r: &mut Rng, f: &mut Frame) -> String {
    let nseg = f.segs.len();
    let pick = 2 + r.below((nseg - 2).max(1) as u64) as usize;
    let i = pick.min(nseg - 1);
    let op = r.below(12);
    let mut reframe = true;
    let desc;
    match op {
        0 => {
            // flip a bit in a segment
            let s = &mut f.segs[i];
            if !s.bytes.is_empty() {
                let j = r.below(s.bytes.len() as u64) as usize;
                s.bytes[j] ^= 1 << r.below(8);
            }
            desc = format!("bitflip seg{}:{:?}", i, f.segs[i].role);
        }
        1 => {
            let s = &mut f.segs[i];
            if !s.bytes.is_empty() {
                let j = r.below(s.bytes.len() as u64) as usize;
                s.bytes[j] = *r.pick(&EVIL_BYTES);
            }
            desc = format!("evilbyte seg{}:{:?}", i, f.segs[i].role);
        }
        2 => {
            // a string / binary length prefix off by a little (not re-framed inside, outer lengths fixed)
            let c: Vec<usize> = f.positions(|s| matches!(s.role, Role::Str(_) | Role::Bin(_) | Role::ProtoName));
            if let Some(&k) = c.get(r.below(c.len().max(1) as u64) as usize) {
                let s = &mut f.segs[k];
                let l = ((s.bytes[0] as u16) << 8) | s.bytes[1] as u16;
                let nl = match r.below(5) {
                    0 => l.wrapping_add(1),
                    1 => l.wrapping_sub(1),
                    2 => l.wrapping_add(2),
                    3 => 0,
                    _ => 0xffff,
                };
                s.bytes[0] = (nl >> 8) as u8;
                s.bytes[1] = nl as u8;
                desc = format!("strlen seg{} {}->{}", k, l, nl);
            } else {
                desc = "strlen n/a".into();
            }
        }
        3 => {
            // property length off (keep outer remaining length consistent)
            f.reframe();
            reframe = false;
            let c: Vec<usize> = f.positions(|s| s.role == Role::PropLen);
            if let Some(&k) = c.get(r.below(c.len().max(1) as u64) as usize) {
                let cur = match varint_dec(&f.segs[k].bytes) {
                    VarDec::Ok(v, _, _) => v,
                    _ => 0,
                };
                let nv = match r.below(5) {
                    0 => cur.wrapping_add(1),
                    1 => cur.saturating_sub(1),
                    2 => cur.wrapping_add(r.range(2, 9) as u32),
                    3 => 0,
                    _ => 268_435_455,
                };
                f.segs[k].bytes = varint_enc(nv as u64);
                desc = format!("proplen seg{} {}->{}", k, cur, nv);
            } else {
                desc = "proplen n/a".into();
            }
            f.fix_remlen(0);
        }
        4 => {
            // remaining length off by a little
            f.reframe();
            reframe = false;
            let n = f.body_len() as i64;
            let nv = (n + *r.pick(&[-2i64, -1, 1, 2, 5])).max(0) as u64;
            let pos = f.positions(|s| s.role == Role::RemLen)[0];
            f.segs[pos].bytes = varint_enc(nv);
            desc = format!("remlen {}->{}", n, nv);
        }
        5 => {
            // remove a segment
            if nseg > 3 {
                let s = f.segs.remove(i);
                desc = format!("remove seg{}:{:?}", i, s.role);
            } else {
                desc = "remove n/a".into();
            }
        }
        6 => {
            // duplicate a segment
            let s = f.segs[i].clone();
            f.segs.insert(i, s);
            desc = format!("dup seg{}:{:?}", i, f.segs[i].role);
        }
        7 => {
            // move a property into the other scope / out of its scope
            let s = &mut f.segs[i];
            s.scope = (s.scope + 1) % 3;
            desc = format!("rescope seg{}", i);
        }
        8 => {
            // control byte
            let v = match r.below(3) {
                0 => f.segs[0].bytes[0] ^ (1 << r.below(4)),
                1 => (f.segs[0].bytes[0] & 0x0f) | ((r.range(0, 15) as u8) << 4),
                _ => r.u8(),
            };
            f.segs[0].bytes[0] = v;
            desc = format!("ctl->{:02x}", v);
        }
        9 => {
            // truncate the frame at a segment boundary (and declare the shorter length)
            f.segs.truncate(i.max(3));
            desc = format!("truncate at seg{}", i);
        }
        10 => {
            // append garbage inside the frame
            let k = r.range(1, 6);
            let g = r.bytes(k);
            f.segs.push(crate::refenc::Seg { role: Role::Payload, scope: 0, bytes: g });
            desc = format!("append {} bytes", k);
        }
        _ => {
            // random bytes in place of a segment
            let n = f.segs[i].bytes.len();
            f.segs[i].bytes = r.bytes(n);
            desc = format!("randomise seg{}:{:?}", i, f.segs[i].role);
        }
    }
    if reframe {
        f.reframe();
    }
    desc
}

/// G4(c): uniformly random strings, biased so that the first byte is often a plausible header.
pub fn random_stream(r: &mut Rng, maxlen: usize) -> Vec<u8> {
    let n = r.range(0, maxlen);
    let mut b = r.bytes(n);
    if n >= 2 && r.bool() {
        let typ = r.range(1, 15) as u8;
        let flags = required_flags(typ).unwrap_or(r.below(16) as u8);
        b[0] = (typ << 4) | flags;
        if r.bool() {
            b[1] = (n - 2).min(127) as u8;
        }
    }
    b
}

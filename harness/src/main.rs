//! mqv: runtime monitors for the mqtt-proto codec (see /verif/DESIGN.md).

use mqv::{alloc, ev, mon, rng, wl};

#[cfg(not(miri))]
#[global_allocator]
static GLOBAL: alloc::Meter = alloc::Meter;

use std::time::Instant;

fn arg<'a>(args: &'a [String], name: &str) -> Option<&'a str> {
    args.iter().position(|a| a == name).and_then(|i| args.get(i + 1)).map(|s| s.as_str())
}

fn leak(s: &str) -> &'static str {
    mon::PROPS.iter().find(|p| **p == s).copied().unwrap_or("C00")
}

fn main() {
    let args: Vec<String> = std::env::args().collect();
    ev::install_panic_hook();
    let cmd = args.get(1).map(|s| s.as_str()).unwrap_or("");
    match cmd {
        "run" => {
            let prop = leak(args.get(2).map(|s| s.as_str()).unwrap_or(""));
            let thorough = args.get(3).map(|s| s == "thorough").unwrap_or(false);
            let layer = arg(&args, "--layer").unwrap_or("chk").to_string();
            let mut seed: u64 = arg(&args, "--seed").and_then(|s| s.parse().ok()).unwrap_or(1);
            let out = arg(&args, "--out").unwrap_or("/dev/stdout").to_string();
            let replays = arg(&args, "--replays").unwrap_or("/verif/replays").to_string();
            let shard = arg(&args, "--shard").unwrap_or("0").to_string();
            let shards: usize = arg(&args, "--shards").and_then(|s| s.parse().ok()).unwrap_or(1);
            if shard != "0" {
                let i: usize = shard.parse().unwrap_or(1);
                wl::set_shard(i.saturating_sub(1), shards);
                seed = seed.wrapping_mul(1_000_003);
            }
            alloc::configure(prop, &replays);
            alloc::install_crash_handler();
            if prop == "C03" && !cfg!(miri) {
                alloc::start_watchdog(if layer == "vg" || layer == "asan" { 600 } else { 90 });
            }
            let t0 = Instant::now();
            let mut ctx = ev::Ctx::new(prop, seed, thorough);
            mon::run(&mut ctx, &layer);
            let wall = t0.elapsed().as_secs_f64();
            let lname = if shard != "0" { format!("{}-s{}", layer, shard) } else { layer.clone() };
            let mut extra = vec![("workers".to_string(), wl::nworkers().to_string())];
            if prop == "C02" {
                // rolling hash of everything the encoders produced on worker 0..n (compared chk vs rel by the driver)
                let mut keys: Vec<(String, u64)> = ctx.hist.iter().filter(|(k, _)| k.starts_with("rolling.")).map(|(k, v)| (k.clone(), *v)).collect();
                keys.sort();
                let h = keys.iter().fold(0u64, |a, (k, v)| rng::fnv_bytes(a ^ *v, k.as_bytes()));
                extra.push(("rolling_hash".to_string(), format!("{:016x}", h)));
                ctx.hist.retain(|k, _| !k.starts_with("rolling."));
            }
            ev::write_layer_json(&ctx, &lname, wall, mon::rule(prop), mon::exhaustive(prop, thorough, &layer), &extra, &replays, &out);
            eprintln!(
                "[mqv] {} {} layer={} seed={} evaluations={} distinct={} violations={} inconclusive={} harness_errors={} wall={:.1}s",
                prop,
                if thorough { "thorough" } else { "quick" },
                lname,
                seed,
                ctx.evaluations,
                ctx.distinct_total(),
                ctx.violations.len(),
                ctx.inconclusive,
                ctx.harness_errors.len(),
                wall
            );
        }
        "corpus" => {
            // seed corpus for the cargo-fuzz targets: first byte selects the family (even = v3, odd = v5)
            let prop = leak(args.get(2).map(|s| s.as_str()).unwrap_or(""));
            let dir = args.get(3).expect("corpus dir").clone();
            let n: usize = args.get(4).and_then(|s| s.parse().ok()).unwrap_or(2000);
            let seed: u64 = arg(&args, "--seed").and_then(|s| s.parse().ok()).unwrap_or(1);
            std::fs::create_dir_all(&dir).expect("corpus dir");
            let mut r = rng::Rng::for_worker(seed, prop, 99);
            let mut k = 0usize;
            for fam in [mqv::refm::Fam::V3, mqv::refm::Fam::V5] {
                let tag = if fam == mqv::refm::Fam::V3 { 0u8 } else { 1u8 };
                let mut sr = rng::Rng::new(seed ^ 0xc05);
                mon::bytes::accepted_workload(&mut r, fam, n / 2, &mut |b, _| {
                    if b.len() <= 1000 {
                        let mut v = vec![tag];
                        if prop == "C05" {
                            // [family | mode<<1] [k] [k schedule bytes] [stream]
                            v[0] |= (sr.below(2) as u8) << 1;
                            let k = sr.range(0, 12);
                            v.push(k as u8);
                            for _ in 0..k {
                                v.push(if sr.chance(1, 3) { 0x80 } else { sr.below(6) as u8 });
                            }
                        }
                        v.extend_from_slice(b);
                        let _ = std::fs::write(format!("{}/seed-{:05}", dir, k), v);
                        k += 1;
                    }
                });
            }
            println!("wrote {} seeds to {}", k, dir);
        }
        "replay" => {
            let path = args.get(2).expect("replay file");
            let raw = std::fs::read(path).expect("read replay file");
            let text = String::from_utf8_lossy(&raw).to_string();
            let (prop, case) = match ev::case_from_text(&text) {
                Some((p, c)) if !p.is_empty() => (p, c),
                _ => {
                    // a raw libFuzzer artifact: property from --prop, first byte selects the family
                    let p = arg(&args, "--prop").expect("raw artifact: pass --prop Cxx").to_string();
                    let fam = if raw.first().map(|b| b & 1 == 0).unwrap_or(true) { 3 } else { 5 };
                    let kind = if p == "C04" { "frame" } else { "bytes" };
                    (p, ev::Case::new(kind, fam, raw.get(1..).unwrap_or(&[])))
                }
            };
            let prop = leak(&prop);
            alloc::configure(prop, "/verif/replays");
            let mut ctx = ev::Ctx::new(prop, 1, false);
            mon::replay(&mut ctx, &case);
            if ctx.violations.is_empty() {
                println!("REPLAY property={} evaluations={} : no violation reproduced", prop, ctx.evaluations);
            }
            for (sig, (v, _)) in &ctx.violations {
                println!("REPLAY-VIOLATION property={} sig={} :: {}", prop, sig, v.what);
            }
            for e in &ctx.harness_errors {
                println!("REPLAY-HARNESS-ERROR {}", e);
            }
            std::process::exit(if ctx.violations.is_empty() { 0 } else { 1 });
        }
        _ => {
            eprintln!("usage: mqv run <Cxx> <quick|thorough> [--layer chk|rel|miri|asan|vg] [--seed N] [--shard i] [--out file] [--replays dir]\n       mqv replay <file>");
            std::process::exit(2);
        }
    }
}

//! Workload sources G1 (random valid packets), G2 (finite enumerations), G3 (size boundaries).
//! Everything is generated as reference AST values inside the codec's valid domain.

use crate::refm::*;
use crate::rng::Rng;

#[cfg(not(miri))]
pub const BOUNDARY_LENS: [usize; 12] = [0, 1, 2, 127, 128, 129, 255, 256, 16_383, 16_384, 65_534, 65_535];
/// Under Miri (four orders of magnitude slower) the long-field classes are left to the native layers.
#[cfg(miri)]
pub const BOUNDARY_LENS: [usize; 12] = [0, 1, 2, 127, 128, 129, 255, 256, 3, 130, 200, 300];

const CP2: [char; 4] = ['é', 'ß', 'Ж', '¢'];
const CP3: [char; 4] = ['€', '中', '\u{FEFF}', '\u{FFFD}'];
const CP4: [char; 3] = ['𝄞', '😀', '\u{10FFFF}'];

/// Valid UTF-8 text of exactly `n` bytes (no NUL, no '+', '#', '/'), mixing 1–4 byte code points.
pub fn text_exact(r: &mut Rng, n: usize) -> Vec<u8> {
    let mut s = String::with_capacity(n);
    if n > 512 {
        // long strings: a random head, then a cheap fill
        let head = text_exact(r, 64);
        s.push_str(std::str::from_utf8(&head).unwrap());
        while s.len() + 4 <= n {
            s.push_str("abcd");
        }
    }
    while s.len() < n {
        let left = n - s.len();
        let k = r.below(10);
        let c = if k < 6 || left < 2 {
            (b'a' + r.below(26) as u8) as char
        } else if k < 8 || left < 3 {
            *r.pick(&CP2)
        } else if k < 9 || left < 4 {
            *r.pick(&CP3)
        } else {
            *r.pick(&CP4)
        };
        s.push(c);
    }
    debug_assert_eq!(s.len(), n);
    s.into_bytes()
}

/// Length drawn for a free text/binary field.
/// 2^k - 1, 2^k, 2^k + 1: the sizes at which internal staging buffers, chunked reads and narrow
/// counters of an implementation change behaviour (k up to 16 natively, up to 9 under Miri).
pub fn pow2_len(r: &mut Rng) -> usize {
    let k = r.range(3, if cfg!(miri) { 9 } else { 16 });
    ((1usize << k) + r.range(0, 2) - 1).min(65_535)
}

pub fn field_len(r: &mut Rng, big: bool) -> usize {
    if big {
        match r.below(4) {
            0 => pow2_len(r),
            1 => r.range(15, if cfg!(miri) { 300 } else { 1100 }),
            _ => *r.pick(&BOUNDARY_LENS),
        }
    } else {
        match r.below(8) {
            0 => 0,
            1 => 1,
            _ => r.range(1, 14),
        }
    }
}

pub fn text(r: &mut Rng, big: bool) -> Vec<u8> {
    let n = field_len(r, big);
    text_exact(r, n)
}

pub fn binary(r: &mut Rng, big: bool) -> Vec<u8> {
    let n = field_len(r, big);
    let mut v = r.bytes(n);
    if n >= 2 && r.chance(1, 6) {
        // binary data whose edge looks like the start of a packet: a decoder that loses a byte of
        // framing then finds a plausible header instead of garbage
        const LOOKALIKES: [&[u8]; 8] = [b"\xc0\x00", b"\xd0\x00", b"\xe0\x00", b"\x30\x00", b"\x20\x02\x00\x00", b"\x40\x02\x00\x01", b"\x10\x0c\x00\x04MQTT", b"\x82\x05\x00\x01\x00"];
        let t = *r.pick(&LOOKALIKES);
        if t.len() <= n {
            if r.bool() {
                v[n - t.len()..].copy_from_slice(t);
            } else {
                v[..t.len()].copy_from_slice(t);
            }
        }
    }
    v
}

/// A valid topic name (may be empty: the codec's domain allows it).
pub fn topic_name(r: &mut Rng, big: bool) -> Vec<u8> {
    if big {
        let n = *r.pick(&BOUNDARY_LENS);
        let mut t = text_exact(r, n);
        // sprinkle level separators
        if n > 4 {
            for _ in 0..3 {
                let i = r.below(n as u64) as usize;
                if t[i].is_ascii() {
                    t[i] = b'/';
                }
            }
        }
        return t;
    }
    let mut t = Vec::new();
    match r.below(12) {
        0 => return t,
        1 => t.extend_from_slice(b"$SYS/"),
        2 => t.extend_from_slice(b"$share/"),
        3 => t.push(b'/'),
        _ => {}
    }
    let levels = r.range(1, 4);
    for i in 0..levels {
        if i > 0 {
            t.push(b'/');
        }
        let n = r.range(0, 5);
        t.extend_from_slice(&text_exact(r, n));
    }
    t
}

/// A long (100..400 bytes, occasionally ~64 KiB) topic filter that is well-formed UTF-8 with multi-byte
/// characters at arbitrary offsets but violates a filter rule; also invalid as a topic name.
pub fn long_invalid_filter(r: &mut Rng) -> Vec<u8> {
    let n = if !cfg!(miri) && r.chance(1, 400) { r.range(65_000, 65_520) } else { r.range(100, 400) };
    let mut t = if n > 1000 {
        // multi-byte characters throughout, not only in the head
        let mut s = String::with_capacity(n + 8);
        while s.len() < n {
            s.push(*r.pick(&['a', 'é', '€', '𝄞', 'b', '/']));
        }
        s.into_bytes()
    } else {
        text_exact(r, n)
    };
    t.extend_from_slice(*r.pick(&[&b"#x"[..], b"/#/", b"a+", b"\0", b"/a+", b"+b", b"/#/#x"]));
    t
}

/// A valid topic filter.
pub fn topic_filter(r: &mut Rng, big: bool) -> Vec<u8> {
    let mut t = Vec::new();
    if r.chance(1, 5) {
        t.extend_from_slice(b"$share/");
        let n = r.range(1, 5);
        t.extend_from_slice(&text_exact(r, n));
        t.push(b'/');
    } else if r.chance(1, 10) {
        t.extend_from_slice(b"$SYS/");
    }
    if big {
        let n = (*r.pick(&BOUNDARY_LENS)).max(1);
        let n = n.saturating_sub(t.len()).max(1);
        t.extend_from_slice(&text_exact(r, n));
        t.truncate(65_535);
        // truncation may cut a multi-byte char: fix up
        while std::str::from_utf8(&t).is_err() {
            t.pop();
        }
        return t;
    }
    let levels = r.range(1, 4);
    for i in 0..levels {
        if i > 0 {
            t.push(b'/');
        }
        match r.below(6) {
            0 => t.push(b'+'),
            1 if i + 1 == levels => t.push(b'#'),
            _ => {
                let n = r.range(0, 4);
                t.extend_from_slice(&text_exact(r, n));
            }
        }
    }
    if t.is_empty() || t.ends_with(b"$share/x/") {
        t.push(b'a');
    }
    if !valid_filter(&t) {
        // e.g. "$share/ab/" + empty remainder
        t.push(b'a');
    }
    t
}

pub fn prop_value(r: &mut Rng, id: u8, big: bool) -> PV {
    let spec = prop_spec(id).expect("known id");
    match spec.kind {
        PK::Byte => PV::Byte(r.below(2) as u8),
        PK::U16 => PV::U16(u16_biased(r)),
        PK::U32 => PV::U32(match r.below(4) {
            0 => *r.pick(&[0u32, 1, 0xff, 0x100, 0xffff, 0x1_0000, 0x7fff_ffff, 0x8000_0000, u32::MAX - 1, u32::MAX]),
            1 => u32::MAX,
            _ => r.u32(),
        }),
        PK::Var => PV::Var(match r.below(8) {
            0 => 0,
            1 => 127,
            2 => 128,
            3 => 16_383,
            4 => 16_384,
            5 => 2_097_152,
            6 => 268_435_455,
            _ => r.u32() % VARINT_LIMIT,
        }),
        PK::Str => {
            if id == 0x08 {
                PV::Str(topic_name(r, big))
            } else {
                PV::Str(text(r, big))
            }
        }
        PK::Bin => PV::Bin(binary(r, big)),
        PK::Pair => PV::Pair(text(r, big), text(r, big)),
    }
}

/// 16-bit values with the byte- and sign-boundaries over-represented.
pub fn u16_biased(r: &mut Rng) -> u16 {
    match r.below(4) {
        0 => *r.pick(&[0u16, 1, 0x7f, 0x80, 0xff, 0x100, 0x7fff, 0x8000, 0xfffe, 0xffff]),
        _ => r.u16(),
    }
}

/// Properties for context `ctx`: each allowed property present iff its bit in `mask` is set
/// (bit i ↔ i-th entry of `props_allowed(ctx)`), plus `nuser` user properties.
pub fn props_with_mask(r: &mut Rng, ctx: u8, mask: u32, nuser: usize, big: bool) -> Props {
    let ids = props_allowed(ctx);
    let mut p = Vec::new();
    let bigidx = if big { r.below(ids.len().max(1) as u64 + 1) as usize } else { usize::MAX };
    for (i, id) in ids.iter().enumerate() {
        if mask & (1 << i) != 0 {
            p.push((*id, prop_value(r, *id, i == bigidx)));
        }
    }
    for _ in 0..nuser {
        p.push((USER_PROPERTY, prop_value(r, USER_PROPERTY, big && bigidx == ids.len())));
    }
    p
}

pub fn props(r: &mut Rng, ctx: u8, big: bool) -> Props {
    let n = props_allowed(ctx).len();
    let mask = match r.below(4) {
        0 => 0,
        1 => u32::MAX,
        _ => r.u32(),
    } & ((1u32 << n) - 1).max(0);
    let nuser = match r.below(6) {
        0..=2 => 0,
        3 => 1,
        4 => 2,
        _ => {
            if !cfg!(miri) && r.chance(1, 40) {
                r.range(100, 400) // long user-property lists
            } else {
                r.range(3, 8)
            }
        }
    };
    let mut p = props_with_mask(r, ctx, mask, nuser, big);
    if nuser >= 1 && r.chance(1, 5) {
        // repeated user properties: the same key twice (values equal or not), adjacent or not
        let ups: Vec<usize> = p.iter().enumerate().filter(|(_, (id, _))| *id == USER_PROPERTY).map(|(i, _)| i).collect();
        let src = p[*r.pick(&ups)].clone();
        let dup = match (&src.1, r.bool()) {
            (PV::Pair(k, _), true) => (USER_PROPERTY, PV::Pair(k.clone(), text(r, false))),
            _ => src,
        };
        p.push(dup);
    }
    // order is free on the wire: shuffle, the codec re-orders
    if r.bool() {
        r.shuffle(&mut p);
    }
    p
}

fn fix_payload_utf8(r: &mut Rng, props: &Props, payload: Vec<u8>) -> Vec<u8> {
    if props.iter().any(|(i, v)| *i == 0x01 && *v == PV::Byte(1)) && !utf8_ok(&payload) {
        let n = payload.len();
        let mut t = text_exact(r, n);
        if n > 0 && r.chance(1, 3) {
            // U+0000 is forbidden in MQTT *strings* only: a payload flagged as UTF-8 may contain it
            // (NUL-terminated text from C clients)
            for _ in 0..r.range(1, 3) {
                let i = r.below(n as u64) as usize;
                if t[i].is_ascii() {
                    t[i] = 0;
                }
            }
        }
        t
    } else {
        payload
    }
}

pub fn v3_versions() -> [(&'static [u8], u8); 2] {
    [(b"MQIsdp", 3), (b"MQTT", 4)]
}

pub fn gen_will(r: &mut Rng, fam: Fam, big: bool) -> RWill {
    let props = if fam == Fam::V5 { props(r, CTX_WILL, false) } else { Vec::new() };
    let payload = binary(r, big);
    let payload = fix_payload_utf8(r, &props, payload);
    RWill { qos: r.below(3) as u8, retain: r.bool(), topic: topic_name(r, false), payload, props }
}

/// G1: a random valid packet of type `typ` (1..=15) for family `fam`.
/// Element count of a topic / code list: mostly uniform in lo..=hi, sometimes next to a power of two
/// (u8 counters, 64-element staging buffers) or well beyond them.
fn list_count(r: &mut Rng, lo: usize, hi: usize) -> usize {
    if cfg!(miri) {
        return r.range(lo, hi.min(12));
    }
    match r.below(12) {
        0 | 1 => *r.pick(&[63usize, 64, 65, 127, 128, 129, 255, 256, 257]),
        2 => r.range(258, 600),
        _ => r.range(lo, hi),
    }
}

pub fn gen_rp(r: &mut Rng, fam: Fam, typ: u8, big: bool) -> RP {
    let v5 = fam == Fam::V5;
    let pr = |r: &mut Rng, ctx: u8| if v5 { props(r, ctx, false) } else { Vec::new() };
    let pid = |r: &mut Rng| match r.below(6) {
        0 => 1u16,
        1 => 65_535,
        2 => 256,
        3 => 255,
        _ => (r.below(65_535) + 1) as u16,
    };
    match typ {
        1 => {
            let (name, level) = if v5 { (&b"MQTT"[..], 5) } else { v3_versions()[r.below(2) as usize] };
            let which = if big { r.below(4) } else { 99 };
            RP::Connect {
                name: name.to_vec(),
                level,
                clean: r.bool(),
                keep_alive: u16_biased(r),
                client_id: text(r, which == 0),
                will: if r.bool() { Some(gen_will(r, fam, which == 1)) } else { None },
                username: if r.bool() { Some(text(r, which == 2)) } else { None },
                password: if r.bool() { Some(binary(r, which == 3)) } else { None },
                props: pr(r, 1),
            }
        }
        2 => {
            let code = if v5 { *r.pick(CONNACK_V5) } else { *r.pick(CONNACK_V3) };
            RP::Connack { sp: r.bool(), code, props: pr(r, 2) }
        }
        3 => {
            let qos = r.below(3) as u8;
            let props = pr(r, 3);
            let payload = if big && r.bool() {
                let n = if cfg!(miri) {
                    *r.pick(&[127usize, 128, 200])
                } else {
                    match r.below(3) {
                        0 => *r.pick(&[127usize, 128, 16_383, 16_384, 70_000]),
                        1 => pow2_len(r) * *r.pick(&[1usize, 1, 2]),
                        _ => r.range(15, 20_000),
                    }
                };
                r.bytes(n)
            } else {
                binary(r, false)
            };
            let payload = fix_payload_utf8(r, &props, payload);
            let mut props = props;
            if !payload.is_empty() && r.chance(1, 4) {
                // correlation data cut from the payload's own bytes (a prefix, or all of it): the
                // harness hands such fields to the crate as windows into one shared buffer
                for (id, v) in props.iter_mut() {
                    if *id == 0x09 {
                        let k = if r.bool() { payload.len() } else { r.range(1, payload.len()) }.min(65_535);
                        *v = PV::Bin(payload[..k].to_vec());
                    }
                }
            }
            RP::Publish {
                dup: r.bool(),
                qos,
                retain: r.bool(),
                topic: {
                    let bt = big && r.bool();
                    topic_name(r, bt)
                },
                pid: if qos > 0 { Some(pid(r)) } else { None },
                props,
                payload,
            }
        }
        4..=7 => {
            let code = if v5 { *r.pick(v5_codes(typ)) } else { 0 };
            let props = if v5 && r.bool() { props(r, typ, false) } else { Vec::new() };
            RP::Ack { typ, pid: pid(r), code, props }
        }
        8 => {
            let n = if big { list_count(r, 1, 40) } else { r.range(1, 4) };
            let topics = (0..n)
                .map(|i| {
                    let f = topic_filter(r, big && i == 0);
                    let o = if v5 {
                        (r.below(3) as u8) | ((r.below(2) as u8) << 2) | ((r.below(2) as u8) << 3) | ((r.below(3) as u8) << 4)
                    } else {
                        r.below(3) as u8
                    };
                    (f, o)
                })
                .collect();
            let mut topics: Vec<(Vec<u8>, u8)> = topics;
            if r.chance(1, 6) {
                // the same filter subscribed twice (adjacent or not), same or different options
                let k = r.below(topics.len() as u64) as usize;
                let mut dup = topics[k].clone();
                if r.bool() {
                    dup.1 = if v5 { (r.below(3) as u8) | ((r.below(3) as u8) << 4) } else { r.below(3) as u8 };
                }
                let at = r.range(0, topics.len());
                topics.insert(at, dup);
            }
            RP::Subscribe { pid: pid(r), props: pr(r, 8), topics }
        }
        9 => {
            let n = if big { list_count(r, 0, 200) } else { r.range(0, 5) };
            let codes = (0..n).map(|_| if v5 { *r.pick(SUBACK_V5) } else { *r.pick(SUBACK_V3) }).collect();
            RP::Suback { pid: pid(r), props: pr(r, 9), codes }
        }
        10 => {
            let n = if big { list_count(r, 1, 40) } else { r.range(1, 4) };
            let mut topics: Vec<Vec<u8>> = (0..n).map(|i| topic_filter(r, big && i == 0)).collect();
            if r.chance(1, 6) {
                let k = r.below(topics.len() as u64) as usize;
                let dup = topics[k].clone();
                let at = r.range(0, topics.len());
                topics.insert(at, dup);
            }
            RP::Unsubscribe { pid: pid(r), props: pr(r, 10), topics }
        }
        11 => {
            if v5 {
                let n = if big { list_count(r, 0, 200) } else { r.range(0, 5) };
                RP::Unsuback { pid: pid(r), props: pr(r, 11), codes: (0..n).map(|_| *r.pick(UNSUBACK_V5)).collect() }
            } else {
                RP::Unsuback { pid: pid(r), props: Vec::new(), codes: Vec::new() }
            }
        }
        12 => RP::Pingreq,
        13 => RP::Pingresp,
        14 => {
            if v5 {
                let props = if r.bool() { props(r, 14, false) } else { Vec::new() };
                RP::Disconnect { code: *r.pick(DISCONNECT_V5), props }
            } else {
                RP::Disconnect { code: 0, props: Vec::new() }
            }
        }
        15 => {
            let props = if r.bool() { props(r, 15, false) } else { Vec::new() };
            RP::Auth { code: *r.pick(AUTH_V5), props }
        }
        _ => unreachable!(),
    }
}

pub fn types_of(fam: Fam) -> std::ops::RangeInclusive<u8> {
    match fam {
        Fam::V3 => 1..=14,
        Fam::V5 => 1..=15,
    }
}

pub fn gen_any(r: &mut Rng, fam: Fam) -> RP {
    let hi = if fam == Fam::V5 { 15 } else { 14 };
    // weight the types with structure more heavily
    let typ = match r.below(10) {
        0 | 1 => 1,
        2 | 3 => 3,
        4 => 8,
        _ => r.range(1, hi) as u8,
    };
    let big = r.chance(1, 24);
    gen_rp(r, fam, typ, big)
}

/// G2: finite enumerations. Calls `f` for every packet; values of free fields are fresh random.
/// `subset_cap`: upper bound on the property-subset sweep per context (u32::MAX = all subsets).
pub fn enum_g2(r: &mut Rng, fam: Fam, subset_cap: u32, f: &mut dyn FnMut(RP)) {
    let v5 = fam == Fam::V5;
    // every packet type x every return / reason code
    for code in if v5 { CONNACK_V5 } else { CONNACK_V3 } {
        for sp in [false, true] {
            f(RP::Connack { sp, code: *code, props: Vec::new() });
        }
    }
    if v5 {
        for typ in 4..=7u8 {
            for code in v5_codes(typ) {
                f(RP::Ack { typ, pid: 1 + r.below(65_535) as u16, code: *code, props: Vec::new() });
                f(RP::Ack { typ, pid: 1 + r.below(65_535) as u16, code: *code, props: props(r, typ, false) });
            }
        }
        for code in DISCONNECT_V5 {
            f(RP::Disconnect { code: *code, props: Vec::new() });
            f(RP::Disconnect { code: *code, props: props(r, 14, false) });
        }
        for code in AUTH_V5 {
            f(RP::Auth { code: *code, props: Vec::new() });
            f(RP::Auth { code: *code, props: props(r, 15, false) });
        }
        for code in SUBACK_V5 {
            f(RP::Suback { pid: 7, props: Vec::new(), codes: vec![*code] });
        }
        f(RP::Suback { pid: 7, props: Vec::new(), codes: SUBACK_V5.to_vec() });
        for code in UNSUBACK_V5 {
            f(RP::Unsuback { pid: 7, props: Vec::new(), codes: vec![*code] });
        }
        f(RP::Unsuback { pid: 7, props: Vec::new(), codes: UNSUBACK_V5.to_vec() });
    } else {
        for typ in 4..=7u8 {
            for pid in [1u16, 2, 255, 256, 0x1234, 65_535] {
                f(RP::Ack { typ, pid, code: 0, props: Vec::new() });
            }
        }
        for code in SUBACK_V3 {
            f(RP::Suback { pid: 7, props: Vec::new(), codes: vec![*code] });
        }
        f(RP::Suback { pid: 7, props: Vec::new(), codes: SUBACK_V3.to_vec() });
        f(RP::Unsuback { pid: 9, props: Vec::new(), codes: Vec::new() });
        f(RP::Disconnect { code: 0, props: Vec::new() });
    }
    f(RP::Pingreq);
    f(RP::Pingresp);
    // every CONNECT flag combination x protocol version
    let versions: Vec<(&[u8], u8)> = if v5 { vec![(b"MQTT", 5)] } else { v3_versions().to_vec() };
    for (name, level) in versions {
        for clean in [false, true] {
            for will in 0..7u8 {
                // 0 = none; 1..=6 = qos (0..2) x retain
                for user in [false, true] {
                    for pass in [false, true] {
                        let w = if will == 0 {
                            None
                        } else {
                            let mut w = gen_will(r, fam, false);
                            w.qos = (will - 1) % 3;
                            w.retain = (will - 1) / 3 == 1;
                            Some(w)
                        };
                        f(RP::Connect {
                            name: name.to_vec(),
                            level,
                            clean,
                            keep_alive: u16_biased(r),
                            client_id: text(r, false),
                            will: w,
                            username: if user { Some(text(r, false)) } else { None },
                            password: if pass { Some(binary(r, false)) } else { None },
                            props: Vec::new(),
                        });
                    }
                }
            }
        }
    }
    // every PUBLISH header
    for dup in [false, true] {
        for retain in [false, true] {
            for qos in 0..3u8 {
                f(RP::Publish {
                    dup,
                    qos,
                    retain,
                    topic: topic_name(r, false),
                    pid: if qos > 0 { Some(1 + r.below(65_535) as u16) } else { None },
                    props: Vec::new(),
                    payload: binary(r, false),
                });
            }
        }
    }
    // every subscription option value
    if v5 {
        for qos in 0..3u8 {
            for nl in 0..2u8 {
                for rap in 0..2u8 {
                    for rh in 0..3u8 {
                        let o = qos | (nl << 2) | (rap << 3) | (rh << 4);
                        f(RP::Subscribe { pid: 3, props: Vec::new(), topics: vec![(topic_filter(r, false), o)] });
                    }
                }
            }
        }
    } else {
        for qos in 0..3u8 {
            f(RP::Subscribe { pid: 3, props: Vec::new(), topics: vec![(topic_filter(r, false), qos)] });
        }
    }
    f(RP::Unsubscribe { pid: 4, props: Vec::new(), topics: vec![topic_filter(r, false), topic_filter(r, false)] });
    // every subset of optional properties of every property set
    if v5 {
        for ctx in [1u8, CTX_WILL, 2, 3, 4, 5, 6, 7, 8, 9, 10, 11, 14, 15] {
            let n = props_allowed(ctx).len() as u32;
            let total: u64 = 1u64 << n;
            let step = if total > subset_cap as u64 { (total / subset_cap as u64).max(1) } else { 1 };
            let mut mask: u64 = 0;
            // with a cap, sweep with a stride and a random phase, always including 0 and all-ones
            let phase = if step > 1 { r.below(step) } else { 0 };
            while mask < total {
                let m = if step > 1 { (mask + phase).min(total - 1) } else { mask } as u32;
                for nuser in 0..3usize {
                    if nuser > 0 && total > 256 && (m % 7 != nuser as u32) {
                        continue;
                    }
                    let ps = props_with_mask(r, ctx, m, nuser, false);
                    f(host_for_props(r, ctx, ps));
                }
                mask += step;
            }
            if step > 1 {
                let ps = props_with_mask(r, ctx, (total - 1) as u32, 1, false);
                f(host_for_props(r, ctx, ps));
            }
        }
    }
}

/// A v5 packet of the type that carries property context `ctx`, with the given properties.
pub fn host_for_props(r: &mut Rng, ctx: u8, ps: Props) -> RP {
    match ctx {
        1 => RP::Connect {
            name: b"MQTT".to_vec(),
            level: 5,
            clean: r.bool(),
            keep_alive: r.u16(),
            client_id: text(r, false),
            will: None,
            username: None,
            password: None,
            props: ps,
        },
        CTX_WILL => {
            let payload = binary(r, false);
            let payload = fix_payload_utf8(r, &ps, payload);
            RP::Connect {
                name: b"MQTT".to_vec(),
                level: 5,
                clean: r.bool(),
                keep_alive: u16_biased(r),
                client_id: text(r, false),
                will: Some(RWill { qos: r.below(3) as u8, retain: r.bool(), topic: topic_name(r, false), payload, props: ps }),
                username: None,
                password: None,
                props: Vec::new(),
            }
        }
        2 => RP::Connack { sp: r.bool(), code: *r.pick(CONNACK_V5), props: ps },
        3 => {
            let qos = r.below(3) as u8;
            let payload = binary(r, false);
            let payload = fix_payload_utf8(r, &ps, payload);
            RP::Publish {
                dup: false,
                qos,
                retain: r.bool(),
                topic: topic_name(r, false),
                pid: if qos > 0 { Some(1 + r.below(65_535) as u16) } else { None },
                props: ps,
                payload,
            }
        }
        4..=7 => RP::Ack { typ: ctx, pid: 1 + r.below(65_535) as u16, code: *r.pick(v5_codes(ctx)), props: ps },
        8 => RP::Subscribe { pid: 5, props: ps, topics: vec![(topic_filter(r, false), r.below(3) as u8)] },
        9 => RP::Suback { pid: 5, props: ps, codes: vec![*r.pick(SUBACK_V5)] },
        10 => RP::Unsubscribe { pid: 5, props: ps, topics: vec![topic_filter(r, false)] },
        11 => RP::Unsuback { pid: 5, props: ps, codes: vec![*r.pick(UNSUBACK_V5)] },
        14 => RP::Disconnect { code: *r.pick(DISCONNECT_V5), props: ps },
        15 => RP::Auth { code: *r.pick(AUTH_V5), props: ps },
        _ => unreachable!(),
    }
}

/// G3 (property sections): a v5 packet of the type carrying context `ctx` whose property section
/// (the bytes after its own length prefix) is exactly `target` bytes (target >= 5), made of user
/// properties only, so that the section's length prefix sits on a width boundary.
pub fn gen_props_sized(r: &mut Rng, ctx: u8, target: usize) -> RP {
    const FULL: usize = 5 + 2 * 65_535;
    let mut rem = target;
    let mut ps: Props = Vec::new();
    let mut one = |n: usize, ps: &mut Props| {
        // a user property of exactly n bytes on the wire (n >= 5): id + 2 + name + 2 + value
        let body = n - 5;
        let a = body.min(65_535);
        let b = body - a;
        ps.push((USER_PROPERTY, PV::Pair(vec![b'n'; a], vec![b'v'; b])));
    };
    while rem >= FULL + 5 {
        one(FULL, &mut ps);
        rem -= FULL;
    }
    if rem > FULL {
        one(rem - 5, &mut ps);
        one(5, &mut ps);
    } else if rem >= 5 {
        one(rem, &mut ps);
    }
    host_for_props(r, ctx, ps)
}

/// G3: a packet whose remaining length is exactly `target` (target >= 8), built from a free-length field.
pub fn gen_sized(r: &mut Rng, fam: Fam, target: usize, shape: u8) -> RP {
    let v5 = fam == Fam::V5;
    // shapes 3..=7 (dense sweep): the free length sits in a string, a list or a property section
    // instead of the payload; they need a little room and fall back to shape 0 otherwise
    let shape = if shape % 8 >= 3 && (target < 40 || (shape % 8 == 4 && target > 65_000)) { 0 } else { shape % 8 };
    match shape {
        3 => {
            // PUBLISH QoS0 with a long topic, the rest in the payload
            let fixed = 2 + if v5 { 1 } else { 0 };
            let tl = (target - fixed).min(65_535);
            let mut topic = vec![b'x'; tl];
            for i in (7..tl).step_by(61) {
                topic[i] = b'/';
            }
            return RP::Publish { dup: false, qos: 0, retain: false, topic, pid: None, props: Vec::new(), payload: r.bytes_cheap(target - fixed - tl) };
        }
        4 => {
            // CONNECT whose client identifier takes the free length
            let (name, level): (&[u8], u8) = if v5 { (b"MQTT", 5) } else { (b"MQTT", 4) };
            let fixed = 2 + 4 + 1 + 1 + 2 + if v5 { 1 } else { 0 } + 2;
            return RP::Connect {
                name: name.to_vec(),
                level,
                clean: true,
                keep_alive: 30,
                client_id: text_exact(r, target - fixed),
                will: None,
                username: None,
                password: None,
                props: Vec::new(),
            };
        }
        5 | 6 => {
            // SUBSCRIBE (entries of 2 + len + 1) / UNSUBSCRIBE (entries of 2 + len): many one-letter
            // filters, the last one sized so that the total is exact
            let per = if shape == 5 { 4 } else { 3 };
            let fixed = 2 + if v5 { 1 } else { 0 };
            let body = target - fixed;
            let k = body / per;
            let rem = body % per;
            let mut filters: Vec<Vec<u8>> = vec![b"a".to_vec(); k];
            if let Some(last) = filters.last_mut() {
                *last = vec![b'b'; 1 + rem];
            }
            return if shape == 5 {
                RP::Subscribe { pid: 3, props: Vec::new(), topics: filters.into_iter().enumerate().map(|(i, f)| (f, (i % 3) as u8)).collect() }
            } else {
                RP::Unsubscribe { pid: 3, props: Vec::new(), topics: filters }
            };
        }
        7 => {
            if !v5 {
                // v3: a topic made of many one-letter levels
                let fixed = 2;
                let tl = (target - fixed).min(65_535);
                let topic: Vec<u8> = (0..tl).map(|i| if i % 2 == 1 { b'/' } else { b'l' }).collect();
                return RP::Publish { dup: false, qos: 0, retain: false, topic, pid: None, props: Vec::new(), payload: r.bytes_cheap(target - fixed - tl) };
            }
            // v5: PUBLISH with many 7-byte user properties, the rest in the payload
            let room = target - 3 - 4;
            let p = (room / 7).min(3000) * 7;
            let w = varint_enc(p as u64).len();
            let props: Props = (0..p / 7).map(|_| (USER_PROPERTY, PV::Pair(b"k".to_vec(), b"v".to_vec()))).collect();
            return RP::Publish { dup: false, qos: 0, retain: false, topic: b"t".to_vec(), pid: None, props, payload: r.bytes_cheap(target - 3 - w - p) };
        }
        _ => {}
    }
    match shape % 3 {
        0 => {
            // PUBLISH QoS0: 2 + topic(1) [+ 1 property length] + payload
            let fixed = 2 + 1 + if v5 { 1 } else { 0 };
            RP::Publish { dup: false, qos: 0, retain: false, topic: b"t".to_vec(), pid: None, props: Vec::new(), payload: r.bytes_cheap(target - fixed) }
        }
        1 => {
            // PUBLISH QoS1 with pid
            let fixed = 2 + 1 + 2 + if v5 { 1 } else { 0 };
            RP::Publish {
                dup: true,
                qos: 1,
                retain: true,
                topic: b"t".to_vec(),
                pid: Some(65_535),
                props: Vec::new(),
                payload: r.bytes_cheap(target - fixed),
            }
        }
        _ => {
            // SUBACK with many codes (v3, v5): 2 + [1] + n
            let fixed = 2 + if v5 { 1 } else { 0 };
            let n = target - fixed;
            let codes = vec![if v5 { 0x80u8 } else { 1u8 }; n];
            RP::Suback { pid: 9, props: Vec::new(), codes }
        }
    }
}

impl Rng {
    /// n pseudo-random bytes, cheap for very large n (repeats a 4 KiB block)
    pub fn bytes_cheap(&mut self, n: usize) -> Vec<u8> {
        if n <= 8192 {
            return self.bytes(n);
        }
        let block = self.bytes(4096);
        let mut v = Vec::with_capacity(n);
        while v.len() + 4096 <= n {
            v.extend_from_slice(&block);
        }
        let rest = n - v.len();
        v.extend_from_slice(&block[..rest]);
        v
    }
}

#[cfg(test)]
mod sized_tests {
    use super::*;
    #[test]
    fn gen_sized_hits_the_target_exactly() {
        let mut r = Rng::new(5);
        for fam in [Fam::V3, Fam::V5] {
            for shape in 0..8u8 {
                for target in (8..3000).chain([16_383, 16_384, 65_000, 65_001, 70_000, 140_001]) {
                    let rp = gen_sized(&mut r, fam, target, shape);
                    let f = crate::refenc::ref_encode(fam, &rp, &crate::refenc::Spelling::default());
                    assert_eq!(f.body_len(), target, "fam {:?} shape {} target {}", fam, shape, target);
                }
            }
        }
    }
}

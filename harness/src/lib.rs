//! mqv: runtime monitors for the mqtt-proto codec (see /verif/DESIGN.md). The library part is
//! shared by the `mqv` binary (all instrumentation layers) and the cargo-fuzz targets in /verif/fuzz.
#![allow(dead_code)]

pub mod alloc;
pub mod conv;
pub mod ev;
pub mod fe;
pub mod gen;
pub mod io;
pub mod mon;
pub mod refdec;
pub mod refenc;
pub mod refm;
pub mod rng;
pub mod walk;
pub mod wl;

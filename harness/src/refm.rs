//! Reference model, part 1: spec-level AST, number tables typed from the OASIS MQTT 3.1.1 / 5.0
//! specifications (and the IBM 3.1 document), topic rules, var-int and Pid arithmetic.
//!
//! Nothing in this file uses a constant, table, cast or `from_u8` of the crate under test.

#[derive(Clone, Copy, Debug, PartialEq, Eq, Hash, PartialOrd, Ord)]
pub enum Fam {
    V3,
    V5,
}

impl Fam {
    pub fn n(self) -> u8 {
        match self {
            Fam::V3 => 3,
            Fam::V5 => 5,
        }
    }
    pub fn from_n(n: u8) -> Fam {
        if n == 5 {
            Fam::V5
        } else {
            Fam::V3
        }
    }
}

/// Property value by wire type (MQTT 5.0 §2.2.2.2). Strings are raw bytes so that the
/// reference encoder can also emit ill-formed text.
#[derive(Clone, Debug, PartialEq, Eq, Hash)]
pub enum PV {
    Byte(u8),
    U16(u16),
    U32(u32),
    Var(u32),
    Str(Vec<u8>),
    Bin(Vec<u8>),
    Pair(Vec<u8>, Vec<u8>),
}

#[derive(Clone, Copy, Debug, PartialEq, Eq, Hash)]
pub enum PK {
    Byte,
    U16,
    U32,
    Var,
    Str,
    Bin,
    Pair,
}

impl PV {
    pub fn kind(&self) -> PK {
        match self {
            PV::Byte(_) => PK::Byte,
            PV::U16(_) => PK::U16,
            PV::U32(_) => PK::U32,
            PV::Var(_) => PK::Var,
            PV::Str(_) => PK::Str,
            PV::Bin(_) => PK::Bin,
            PV::Pair(_, _) => PK::Pair,
        }
    }
}

pub type Props = Vec<(u8, PV)>;

#[derive(Clone, Debug, PartialEq, Eq, Hash)]
pub struct RWill {
    pub qos: u8,
    pub retain: bool,
    pub topic: Vec<u8>,
    pub payload: Vec<u8>,
    pub props: Props,
}

/// Spec-level packet value. v3 packets carry empty `props` and code 0 where v3 has no such field.
#[derive(Clone, Debug, PartialEq, Eq, Hash)]
pub enum RP {
    Connect {
        name: Vec<u8>,
        level: u8,
        clean: bool,
        keep_alive: u16,
        client_id: Vec<u8>,
        will: Option<RWill>,
        username: Option<Vec<u8>>,
        password: Option<Vec<u8>>,
        props: Props,
    },
    Connack { sp: bool, code: u8, props: Props },
    Publish { dup: bool, qos: u8, retain: bool, topic: Vec<u8>, pid: Option<u16>, props: Props, payload: Vec<u8> },
    /// typ: 4 PUBACK, 5 PUBREC, 6 PUBREL, 7 PUBCOMP
    Ack { typ: u8, pid: u16, code: u8, props: Props },
    Subscribe { pid: u16, props: Props, topics: Vec<(Vec<u8>, u8)> },
    Suback { pid: u16, props: Props, codes: Vec<u8> },
    Unsubscribe { pid: u16, props: Props, topics: Vec<Vec<u8>> },
    /// v3: codes empty, props empty
    Unsuback { pid: u16, props: Props, codes: Vec<u8> },
    Pingreq,
    Pingresp,
    Disconnect { code: u8, props: Props },
    Auth { code: u8, props: Props },
}

pub fn canon_props(p: &Props) -> Props {
    let mut q = p.clone();
    q.sort_by_key(|(id, _)| *id); // stable: user properties keep their relative order
    q
}

impl RP {
    /// MQTT control packet type number (high nibble of the first byte).
    pub fn typ(&self) -> u8 {
        match self {
            RP::Connect { .. } => 1,
            RP::Connack { .. } => 2,
            RP::Publish { .. } => 3,
            RP::Ack { typ, .. } => *typ,
            RP::Subscribe { .. } => 8,
            RP::Suback { .. } => 9,
            RP::Unsubscribe { .. } => 10,
            RP::Unsuback { .. } => 11,
            RP::Pingreq => 12,
            RP::Pingresp => 13,
            RP::Disconnect { .. } => 14,
            RP::Auth { .. } => 15,
        }
    }
    /// Canonical form for comparisons: properties stably sorted by identifier.
    pub fn canon(&self) -> RP {
        let mut c = self.clone();
        match &mut c {
            RP::Connect { props, will, .. } => {
                *props = canon_props(props);
                if let Some(w) = will {
                    w.props = canon_props(&w.props);
                }
            }
            RP::Connack { props, .. }
            | RP::Publish { props, .. }
            | RP::Ack { props, .. }
            | RP::Subscribe { props, .. }
            | RP::Suback { props, .. }
            | RP::Unsubscribe { props, .. }
            | RP::Unsuback { props, .. }
            | RP::Disconnect { props, .. }
            | RP::Auth { props, .. } => *props = canon_props(props),
            RP::Pingreq | RP::Pingresp => {}
        }
        c
    }
}

pub const TYPE_NAMES: [&str; 16] = [
    "RESERVED0", "CONNECT", "CONNACK", "PUBLISH", "PUBACK", "PUBREC", "PUBREL", "PUBCOMP", "SUBSCRIBE", "SUBACK",
    "UNSUBSCRIBE", "UNSUBACK", "PINGREQ", "PINGRESP", "DISCONNECT", "AUTH",
];

/// Required flag nibble per packet type (None: PUBLISH, where the bits are DUP/QoS/RETAIN).
/// MQTT 3.1.1 table 2.2, MQTT 5.0 table 2-3.
pub fn required_flags(typ: u8) -> Option<u8> {
    match typ {
        3 => None,
        6 | 8 | 10 => Some(0b0010),
        _ => Some(0),
    }
}

pub fn type_exists(fam: Fam, typ: u8) -> bool {
    match fam {
        Fam::V3 => (1..=14).contains(&typ),
        Fam::V5 => (1..=15).contains(&typ),
    }
}

// ------------------------------------------------------------------------------------------
// MQTT 5.0 property table (§2.2.2.2, table 2-4). Context numbers: packet type number, 16 = Will.

pub const CTX_WILL: u8 = 16;

pub struct PropSpec {
    pub id: u8,
    pub kind: PK,
    pub name: &'static str,
    pub allowed: &'static [u8],
}

pub const PROP_TABLE: &[PropSpec] = &[
    PropSpec { id: 0x01, kind: PK::Byte, name: "PayloadFormatIndicator", allowed: &[3, 16] },
    PropSpec { id: 0x02, kind: PK::U32, name: "MessageExpiryInterval", allowed: &[3, 16] },
    PropSpec { id: 0x03, kind: PK::Str, name: "ContentType", allowed: &[3, 16] },
    PropSpec { id: 0x08, kind: PK::Str, name: "ResponseTopic", allowed: &[3, 16] },
    PropSpec { id: 0x09, kind: PK::Bin, name: "CorrelationData", allowed: &[3, 16] },
    PropSpec { id: 0x0B, kind: PK::Var, name: "SubscriptionIdentifier", allowed: &[3, 8] },
    PropSpec { id: 0x11, kind: PK::U32, name: "SessionExpiryInterval", allowed: &[1, 2, 14] },
    PropSpec { id: 0x12, kind: PK::Str, name: "AssignedClientIdentifier", allowed: &[2] },
    PropSpec { id: 0x13, kind: PK::U16, name: "ServerKeepAlive", allowed: &[2] },
    PropSpec { id: 0x15, kind: PK::Str, name: "AuthenticationMethod", allowed: &[1, 2, 15] },
    PropSpec { id: 0x16, kind: PK::Bin, name: "AuthenticationData", allowed: &[1, 2, 15] },
    PropSpec { id: 0x17, kind: PK::Byte, name: "RequestProblemInformation", allowed: &[1] },
    PropSpec { id: 0x18, kind: PK::U32, name: "WillDelayInterval", allowed: &[16] },
    PropSpec { id: 0x19, kind: PK::Byte, name: "RequestResponseInformation", allowed: &[1] },
    PropSpec { id: 0x1A, kind: PK::Str, name: "ResponseInformation", allowed: &[2] },
    PropSpec { id: 0x1C, kind: PK::Str, name: "ServerReference", allowed: &[2, 14] },
    PropSpec { id: 0x1F, kind: PK::Str, name: "ReasonString", allowed: &[2, 4, 5, 6, 7, 9, 11, 14, 15] },
    PropSpec { id: 0x21, kind: PK::U16, name: "ReceiveMaximum", allowed: &[1, 2] },
    PropSpec { id: 0x22, kind: PK::U16, name: "TopicAliasMaximum", allowed: &[1, 2] },
    PropSpec { id: 0x23, kind: PK::U16, name: "TopicAlias", allowed: &[3] },
    PropSpec { id: 0x24, kind: PK::Byte, name: "MaximumQoS", allowed: &[2] },
    PropSpec { id: 0x25, kind: PK::Byte, name: "RetainAvailable", allowed: &[2] },
    PropSpec { id: 0x26, kind: PK::Pair, name: "UserProperty", allowed: &[1, 2, 3, 4, 5, 6, 7, 8, 9, 10, 11, 14, 15, 16] },
    PropSpec { id: 0x27, kind: PK::U32, name: "MaximumPacketSize", allowed: &[1, 2] },
    PropSpec { id: 0x28, kind: PK::Byte, name: "WildcardSubscriptionAvailable", allowed: &[2] },
    PropSpec { id: 0x29, kind: PK::Byte, name: "SubscriptionIdentifierAvailable", allowed: &[2] },
    PropSpec { id: 0x2A, kind: PK::Byte, name: "SharedSubscriptionAvailable", allowed: &[2] },
];

pub const USER_PROPERTY: u8 = 0x26;

pub fn prop_spec(id: u8) -> Option<&'static PropSpec> {
    PROP_TABLE.iter().find(|p| p.id == id)
}

/// Byte-typed properties whose value is restricted to 0 or 1 (all of them, incl. Maximum QoS).
pub fn byte_prop_is_01(id: u8) -> bool {
    matches!(id, 0x01 | 0x17 | 0x19 | 0x24 | 0x25 | 0x28 | 0x29 | 0x2A)
}

/// Non-user property identifiers allowed in context `ctx`, in table order.
pub fn props_allowed(ctx: u8) -> Vec<u8> {
    PROP_TABLE.iter().filter(|p| p.id != USER_PROPERTY && p.allowed.contains(&ctx)).map(|p| p.id).collect()
}

// ------------------------------------------------------------------------------------------
// Reason / return code tables.

pub const CONNACK_V5: &[u8] = &[
    0x00, 0x80, 0x81, 0x82, 0x83, 0x84, 0x85, 0x86, 0x87, 0x88, 0x89, 0x8A, 0x8C, 0x90, 0x95, 0x97, 0x99, 0x9A, 0x9B,
    0x9C, 0x9D, 0x9F,
];
pub const PUBACK_V5: &[u8] = &[0x00, 0x10, 0x80, 0x83, 0x87, 0x90, 0x91, 0x97, 0x99];
pub const PUBREL_V5: &[u8] = &[0x00, 0x92];
pub const SUBACK_V5: &[u8] = &[0x00, 0x01, 0x02, 0x80, 0x83, 0x87, 0x8F, 0x91, 0x97, 0x9E, 0xA1, 0xA2];
pub const UNSUBACK_V5: &[u8] = &[0x00, 0x11, 0x80, 0x83, 0x87, 0x8F, 0x91];
pub const DISCONNECT_V5: &[u8] = &[
    0x00, 0x04, 0x80, 0x81, 0x82, 0x83, 0x87, 0x89, 0x8B, 0x8D, 0x8E, 0x8F, 0x90, 0x93, 0x94, 0x95, 0x96, 0x97, 0x98,
    0x99, 0x9A, 0x9B, 0x9C, 0x9D, 0x9E, 0x9F, 0xA0, 0xA1, 0xA2,
];
pub const AUTH_V5: &[u8] = &[0x00, 0x18, 0x19];
pub const CONNACK_V3: &[u8] = &[0, 1, 2, 3, 4, 5];
pub const SUBACK_V3: &[u8] = &[0, 1, 2, 0x80];

/// Reason-code set of a v5 packet type that carries reason codes.
pub fn v5_codes(typ: u8) -> &'static [u8] {
    match typ {
        2 => CONNACK_V5,
        4 | 5 => PUBACK_V5,
        6 | 7 => PUBREL_V5,
        9 => SUBACK_V5,
        11 => UNSUBACK_V5,
        14 => DISCONNECT_V5,
        15 => AUTH_V5,
        _ => &[],
    }
}

// ------------------------------------------------------------------------------------------
// Variable byte integer (MQTT 5.0 §1.5.5) and fixed-header arithmetic.

pub const VARINT_LIMIT: u32 = 268_435_456;

pub fn varint_width(v: u64) -> Option<usize> {
    if v < 128 {
        Some(1)
    } else if v < 16_384 {
        Some(2)
    } else if v < 2_097_152 {
        Some(3)
    } else if v < 268_435_456 {
        Some(4)
    } else {
        None
    }
}

/// Minimal encoding (also used, unbounded, for ≥ 2^28 when emitting ill-formed frames).
pub fn varint_enc(mut v: u64) -> Vec<u8> {
    let mut out = Vec::with_capacity(4);
    loop {
        let mut b = (v & 0x7f) as u8;
        v >>= 7;
        if v != 0 {
            b |= 0x80;
        }
        out.push(b);
        if v == 0 {
            break;
        }
    }
    out
}

/// Encoding padded to exactly `width` bytes (non-minimal when width > minimal width).
pub fn varint_enc_width(v: u32, width: usize) -> Vec<u8> {
    let mut out = Vec::with_capacity(width);
    let mut x = v;
    for i in 0..width {
        let mut b = (x & 0x7f) as u8;
        x >>= 7;
        if i + 1 < width {
            b |= 0x80;
        }
        out.push(b);
    }
    out
}

#[derive(Clone, Copy, Debug, PartialEq, Eq)]
pub enum VarDec {
    /// value, bytes consumed, minimal?
    Ok(u32, usize, bool),
    Incomplete,
    /// a 4th byte with the continuation bit set
    TooLong,
}

pub fn varint_dec(b: &[u8]) -> VarDec {
    let mut v: u32 = 0;
    for i in 0..4 {
        match b.get(i) {
            None => return VarDec::Incomplete,
            Some(x) => {
                v |= ((*x & 0x7f) as u32) << (7 * i);
                if *x & 0x80 == 0 {
                    let minimal = i == 0 || *x != 0;
                    return VarDec::Ok(v, i + 1, minimal);
                }
            }
        }
    }
    VarDec::TooLong
}

// ------------------------------------------------------------------------------------------
// Packet identifier cycle 1..=65535.

pub fn pid_add(p: u16, u: u16) -> u16 {
    (((p as u32 - 1) + u as u32) % 65_535 + 1) as u16
}

pub fn pid_sub(p: u16, u: u16) -> u16 {
    (((p as i64 - 1 - u as i64).rem_euclid(65_535)) + 1) as u16
}

// ------------------------------------------------------------------------------------------
// Topic rules (MQTT 3.1.1 / 5.0 §4.7, §4.8).

/// `s` must be well-formed UTF-8 (callers check that first).
pub fn valid_topic_name(s: &[u8]) -> bool {
    s.len() <= 65_535 && !s.iter().any(|b| *b == b'+' || *b == b'#' || *b == 0)
}

pub fn valid_filter(s: &[u8]) -> bool {
    if s.is_empty() || s.len() > 65_535 {
        return false;
    }
    if s.contains(&0) {
        return false;
    }
    let levels: Vec<&[u8]> = s.split(|b| *b == b'/').collect();
    let n = levels.len();
    for (i, l) in levels.iter().enumerate() {
        if l.contains(&b'#') && (*l != b"#" || i + 1 != n) {
            return false;
        }
        if l.contains(&b'+') && *l != b"+" {
            return false;
        }
    }
    if s.starts_with(b"$share/") {
        // $share/<name>/<filter>
        let rest = &s[7..];
        let slash = match rest.iter().position(|b| *b == b'/') {
            Some(i) => i,
            None => return false,
        };
        let name = &rest[..slash];
        let filter = &rest[slash + 1..];
        if name.is_empty() || name.contains(&b'+') || name.contains(&b'#') {
            return false;
        }
        if filter.is_empty() {
            return false;
        }
    }
    true
}

/// The unique split of a valid shared filter: (share name, filter).
pub fn shared_split(s: &[u8]) -> Option<(&[u8], &[u8])> {
    if !s.starts_with(b"$share/") {
        return None;
    }
    let rest = &s[7..];
    let slash = rest.iter().position(|b| *b == b'/')?;
    Some((&rest[..slash], &rest[slash + 1..]))
}

pub fn utf8_ok(b: &[u8]) -> bool {
    std::str::from_utf8(b).is_ok()
}

// ------------------------------------------------------------------------------------------
// Spec-level error classes (what C20's catalogue names), and the don't-care notes of DESIGN §3.1.

#[derive(Clone, Debug, PartialEq, Eq, Hash)]
pub enum RefErr {
    Header,
    Qos(u8),
    VarInt,
    ZeroPid,
    ConnectFlags(u8),
    ConnackFlags(u8),
    ConnectReturnCode(u8),
    ReasonCode(u8, u8),
    SubOpt(u8),
    BadString,
    TopicName(Vec<u8>),
    ResponseTopic,
    TopicFilter(Vec<u8>),
    Protocol(Vec<u8>, u8),
    UnexpectedProtocol(u8),
    EmptySubscription,
    PropId(u8),
    DupProp(u8),
    PropNotAllowed(u8, u8),
    WillPropNotAllowed(u8),
    ByteProp(u8, u8),
    PropLen(u32),
    PayloadFormat,
    /// any disagreement between the declared remaining length and the body
    RemLen,
}

impl RefErr {
    pub fn class(&self) -> &'static str {
        match self {
            RefErr::Header => "Header",
            RefErr::Qos(_) => "Qos",
            RefErr::VarInt => "VarInt",
            RefErr::ZeroPid => "ZeroPid",
            RefErr::ConnectFlags(_) => "ConnectFlags",
            RefErr::ConnackFlags(_) => "ConnackFlags",
            RefErr::ConnectReturnCode(_) => "ConnectReturnCode",
            RefErr::ReasonCode(_, _) => "ReasonCode",
            RefErr::SubOpt(_) => "SubOpt",
            RefErr::BadString => "BadString",
            RefErr::TopicName(_) => "TopicName",
            RefErr::ResponseTopic => "ResponseTopic",
            RefErr::TopicFilter(_) => "TopicFilter",
            RefErr::Protocol(_, _) => "Protocol",
            RefErr::UnexpectedProtocol(_) => "UnexpectedProtocol",
            RefErr::EmptySubscription => "EmptySubscription",
            RefErr::PropId(_) => "PropId",
            RefErr::DupProp(_) => "DupProp",
            RefErr::PropNotAllowed(_, _) => "PropNotAllowed",
            RefErr::WillPropNotAllowed(_) => "WillPropNotAllowed",
            RefErr::ByteProp(_, _) => "ByteProp",
            RefErr::PropLen(_) => "PropLen",
            RefErr::PayloadFormat => "PayloadFormat",
            RefErr::RemLen => "RemLen",
        }
    }
}

#[derive(Clone, Copy, Debug, PartialEq, Eq, Hash, PartialOrd, Ord)]
pub enum Note {
    /// Will Retain set while Will Flag = 0
    L1,
    /// v3 CONNECT: password without user name
    L2,
    /// v3 CONNECT: client-id policy (empty with clean=0; 3.1 length 1..23)
    L3,
    /// CONNACK session present with non-zero code
    L4,
    /// PUBLISH DUP with QoS0; empty topic name / will topic / response topic; Topic Alias 0
    L5,
    /// SUBACK / UNSUBACK without codes
    L6,
    /// Subscription Identifier 0; Receive Maximum 0; Maximum Packet Size 0; auth data without method; AUTH without method
    L7,
    /// No Local on a shared subscription
    L8,
    /// U+0000 in a string that is not a topic
    L9,
    /// more than one Subscription Identifier in PUBLISH
    S1,
    /// AUTH with remaining length 1 (reason code without property length)
    A1,
    /// some variable byte integer inside the body is not minimally encoded (outside C04's domain)
    NonMinimal,
}

#[derive(Clone, Debug, PartialEq, Eq)]
pub enum RefOut {
    Accept(RP, Vec<Note>),
    Reject(RefErr),
}

//! Reference model, part 3: reference encoder producing a *segmented* frame, so that mutation
//! operators can change one field and have every enclosing length recomputed (`reframe`).

use crate::refm::*;
use crate::rng::Rng;

#[derive(Clone, Debug, PartialEq, Eq)]
pub enum Role {
    Ctl,
    RemLen,
    ProtoName,
    ProtoLevel,
    ConnFlags,
    KeepAlive,
    /// length-prefixed UTF-8 string; label names the field
    Str(&'static str),
    /// length-prefixed binary data
    Bin(&'static str),
    Pid,
    /// reason / return code byte of CONNACK, PUBACK.., DISCONNECT, AUTH
    Code,
    AckFlags,
    /// subscription options byte (v5) or requested QoS byte (v3)
    Opt,
    /// one SUBACK / UNSUBACK code byte
    SubCode,
    PropLen,
    /// bytes = id ++ value
    Prop { id: u8, kind: PK },
    Payload,
}

#[derive(Clone, Debug, PartialEq, Eq)]
pub struct Seg {
    pub role: Role,
    /// 0 = not inside a property section; 1 = packet properties; 2 = will properties.
    /// For a PropLen segment: the section it measures.
    pub scope: u8,
    pub bytes: Vec<u8>,
}

#[derive(Clone, Debug, PartialEq, Eq)]
pub struct Frame {
    pub segs: Vec<Seg>,
}

#[derive(Clone, Copy, Debug, Default)]
pub struct Spelling {
    /// 0: properties in AST order; otherwise seed of a shuffle
    pub prop_shuffle: u64,
    /// 0: shortest legal form; 1: reason code spelled out; 2: reason code and property length spelled out
    pub long_form: u8,
    /// 0: minimal remaining-length encoding; 2..=4: padded to that many bytes (non-minimal)
    pub remlen_width: u8,
    /// 0: minimal property-length encodings; 2..=4: every property length padded to that many bytes
    pub proplen_width: u8,
}

fn lp(b: &[u8]) -> Vec<u8> {
    let mut v = Vec::with_capacity(2 + b.len());
    v.push((b.len() >> 8) as u8);
    v.push(b.len() as u8);
    v.extend_from_slice(b);
    v
}

pub fn prop_value_bytes(v: &PV) -> Vec<u8> {
    match v {
        PV::Byte(x) => vec![*x],
        PV::U16(x) => x.to_be_bytes().to_vec(),
        PV::U32(x) => x.to_be_bytes().to_vec(),
        PV::Var(x) => varint_enc(*x as u64),
        PV::Str(s) => lp(s),
        PV::Bin(s) => lp(s),
        PV::Pair(k, v) => {
            let mut o = lp(k);
            o.extend_from_slice(&lp(v));
            o
        }
    }
}

impl Frame {
    fn new() -> Frame {
        Frame { segs: Vec::new() }
    }
    fn push(&mut self, role: Role, bytes: Vec<u8>) {
        self.segs.push(Seg { role, scope: 0, bytes });
    }
    fn props(&mut self, scope: u8, props: &Props, sp: &Spelling) {
        self.segs.push(Seg { role: Role::PropLen, scope, bytes: vec![0] });
        let mut order: Vec<usize> = (0..props.len()).collect();
        if sp.prop_shuffle != 0 {
            // shuffle, but keep user properties in their relative order (their order is significant)
            let mut r = Rng::new(sp.prop_shuffle ^ scope as u64);
            r.shuffle(&mut order);
            let mut ups: Vec<usize> = order.iter().copied().filter(|i| props[*i].0 == USER_PROPERTY).collect();
            ups.sort();
            let mut k = 0;
            for o in order.iter_mut() {
                if props[*o].0 == USER_PROPERTY {
                    *o = ups[k];
                    k += 1;
                }
            }
        }
        for i in order {
            let (id, v) = &props[i];
            let mut b = vec![*id];
            b.extend_from_slice(&prop_value_bytes(v));
            self.segs.push(Seg { role: Role::Prop { id: *id, kind: v.kind() }, scope, bytes: b });
        }
    }
    /// Recompute every property length and the remaining length from the segments.
    pub fn reframe(&mut self) {
        for scope in 1..=2u8 {
            let n: usize =
                self.segs.iter().filter(|s| s.scope == scope && matches!(s.role, Role::Prop { .. })).map(|s| s.bytes.len()).sum();
            for s in self.segs.iter_mut() {
                if s.role == Role::PropLen && s.scope == scope {
                    s.bytes = varint_enc(n as u64);
                }
            }
        }
        self.fix_remlen(0);
    }
    pub fn fix_remlen(&mut self, width: u8) {
        let pos = self.segs.iter().position(|s| s.role == Role::RemLen).expect("remlen seg");
        let n: usize = self.segs[pos + 1..].iter().map(|s| s.bytes.len()).sum();
        self.segs[pos].bytes = if width >= 2 && (n as u64) < (1u64 << (7 * width.min(4) as u64)) {
            varint_enc_width(n as u32, width.min(4) as usize)
        } else {
            varint_enc(n as u64)
        };
    }
    pub fn bytes(&self) -> Vec<u8> {
        let n = self.segs.iter().map(|s| s.bytes.len()).sum();
        let mut v = Vec::with_capacity(n);
        for s in &self.segs {
            v.extend_from_slice(&s.bytes);
        }
        v
    }
    pub fn body_len(&self) -> usize {
        let pos = self.segs.iter().position(|s| s.role == Role::RemLen).expect("remlen seg");
        self.segs[pos + 1..].iter().map(|s| s.bytes.len()).sum()
    }
    /// byte offset at which segment `i` starts
    pub fn offset(&self, i: usize) -> usize {
        self.segs[..i].iter().map(|s| s.bytes.len()).sum()
    }
    pub fn positions(&self, f: impl Fn(&Seg) -> bool) -> Vec<usize> {
        self.segs.iter().enumerate().filter(|(_, s)| f(s)).map(|(i, _)| i).collect()
    }
}

/// Encode a spec-level packet for family `fam` (for CONNECT the AST's own name/level are written).
pub fn ref_encode(fam: Fam, p: &RP, sp: &Spelling) -> Frame {
    let mut f = Frame::new();
    let typ = p.typ();
    let flags = match p {
        RP::Publish { dup, qos, retain, .. } => ((*dup as u8) << 3) | (qos << 1) | (*retain as u8),
        _ => required_flags(typ).unwrap_or(0),
    };
    f.push(Role::Ctl, vec![(typ << 4) | flags]);
    f.push(Role::RemLen, vec![0]);
    let v5 = fam == Fam::V5;
    match p {
        RP::Connect { name, level, clean, keep_alive, client_id, will, username, password, props } => {
            f.push(Role::ProtoName, lp(name));
            f.push(Role::ProtoLevel, vec![*level]);
            let mut fl = 0u8;
            if *clean {
                fl |= 2;
            }
            if let Some(w) = will {
                fl |= 4 | (w.qos << 3) | ((w.retain as u8) << 5);
            }
            if password.is_some() {
                fl |= 0x40;
            }
            if username.is_some() {
                fl |= 0x80;
            }
            f.push(Role::ConnFlags, vec![fl]);
            f.push(Role::KeepAlive, keep_alive.to_be_bytes().to_vec());
            if v5 {
                f.props(1, props, sp);
            }
            f.push(Role::Str("client_id"), lp(client_id));
            if let Some(w) = will {
                if v5 {
                    f.props(2, &w.props, sp);
                }
                f.push(Role::Str("will_topic"), lp(&w.topic));
                f.push(Role::Bin("will_payload"), lp(&w.payload));
            }
            if let Some(u) = username {
                f.push(Role::Str("username"), lp(u));
            }
            if let Some(pw) = password {
                f.push(Role::Bin("password"), lp(pw));
            }
        }
        RP::Connack { sp: present, code, props } => {
            f.push(Role::AckFlags, vec![*present as u8]);
            f.push(Role::Code, vec![*code]);
            if v5 {
                f.props(1, props, sp);
            }
        }
        RP::Publish { topic, pid, props, payload, .. } => {
            f.push(Role::Str("topic"), lp(topic));
            if let Some(p) = pid {
                f.push(Role::Pid, p.to_be_bytes().to_vec());
            }
            if v5 {
                f.props(1, props, sp);
            }
            f.push(Role::Payload, payload.clone());
        }
        RP::Ack { pid, code, props, .. } => {
            f.push(Role::Pid, pid.to_be_bytes().to_vec());
            if v5 {
                let need = if !props.is_empty() {
                    2
                } else if *code != 0 {
                    1
                } else {
                    0
                };
                let form = need.max(sp.long_form.min(2));
                if form >= 1 {
                    f.push(Role::Code, vec![*code]);
                }
                if form >= 2 {
                    f.props(1, props, sp);
                }
            }
        }
        RP::Subscribe { pid, props, topics } => {
            f.push(Role::Pid, pid.to_be_bytes().to_vec());
            if v5 {
                f.props(1, props, sp);
            }
            for (t, o) in topics {
                f.push(Role::Str("filter"), lp(t));
                f.push(Role::Opt, vec![*o]);
            }
        }
        RP::Suback { pid, props, codes } => {
            f.push(Role::Pid, pid.to_be_bytes().to_vec());
            if v5 {
                f.props(1, props, sp);
            }
            for c in codes {
                f.push(Role::SubCode, vec![*c]);
            }
        }
        RP::Unsubscribe { pid, props, topics } => {
            f.push(Role::Pid, pid.to_be_bytes().to_vec());
            if v5 {
                f.props(1, props, sp);
            }
            for t in topics {
                f.push(Role::Str("filter"), lp(t));
            }
        }
        RP::Unsuback { pid, props, codes } => {
            f.push(Role::Pid, pid.to_be_bytes().to_vec());
            if v5 {
                f.props(1, props, sp);
                for c in codes {
                    f.push(Role::SubCode, vec![*c]);
                }
            }
        }
        RP::Pingreq | RP::Pingresp => {}
        RP::Disconnect { code, props } => {
            if v5 {
                let need = if !props.is_empty() {
                    2
                } else if *code != 0 {
                    1
                } else {
                    0
                };
                let form = need.max(sp.long_form.min(2));
                if form >= 1 {
                    f.push(Role::Code, vec![*code]);
                }
                if form >= 2 {
                    f.props(1, props, sp);
                }
            }
        }
        RP::Auth { code, props } => {
            // AUTH has no code-only form: either nothing, or code + property length
            let need = if !props.is_empty() || *code != 0 { 2 } else { 0 };
            let form = if sp.long_form >= 1 { 2 } else { need };
            if form >= 2 {
                f.push(Role::Code, vec![*code]);
                f.props(1, props, sp);
            }
        }
    }
    f.reframe();
    if sp.proplen_width >= 2 {
        for s in f.segs.iter_mut() {
            if s.role == Role::PropLen {
                if let VarDec::Ok(v, n, _) = varint_dec(&s.bytes) {
                    if (sp.proplen_width as usize) > n && (v as u64) < (1u64 << (7 * sp.proplen_width.min(4) as u64)) {
                        s.bytes = varint_enc_width(v, sp.proplen_width.min(4) as usize);
                    }
                }
            }
        }
        f.fix_remlen(0);
    }
    if sp.remlen_width >= 2 {
        f.fix_remlen(sp.remlen_width);
    }
    f
}

/// Canonical bytes (shortest legal form, AST property order, minimal lengths).
pub fn ref_bytes(fam: Fam, p: &RP) -> Vec<u8> {
    ref_encode(fam, p, &Spelling::default()).bytes()
}

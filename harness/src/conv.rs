//! Conversions between the crate's packet values and the reference AST.
//!
//! Variant names are mapped to wire numbers through tables written here from the
//! specifications (never through `as u8` / `from_u8` of the crate). Struct patterns are
//! exhaustive (no `..`), so a field added to the crate breaks this build instead of silently
//! escaping the monitors.

use std::sync::Arc;

use bytes::Bytes;
use mqtt_proto::{v3, v5, Pid, Protocol, QoS, QosPid, TopicFilter, TopicName};

use crate::refm::*;

macro_rules! code_table {
    ($to:ident, $from:ident, $ty:ty, { $($var:ident = $num:expr),+ $(,)? }) => {
        pub fn $to(v: $ty) -> u8 {
            match v { $(<$ty>::$var => $num),+ }
        }
        pub fn $from(n: u8) -> Option<$ty> {
            match n { $($num => Some(<$ty>::$var),)+ _ => None }
        }
    };
}

code_table!(qos_num, qos_from, QoS, { Level0 = 0, Level1 = 1, Level2 = 2 });
code_table!(v3_connack_num, v3_connack_from, v3::ConnectReturnCode, {
    Accepted = 0, UnacceptableProtocolVersion = 1, IdentifierRejected = 2, ServerUnavailable = 3,
    BadUserNameOrPassword = 4, NotAuthorized = 5
});
code_table!(v3_suback_num, v3_suback_from, v3::SubscribeReturnCode, {
    MaxLevel0 = 0, MaxLevel1 = 1, MaxLevel2 = 2, Failure = 0x80
});
code_table!(v5_connack_num, v5_connack_from, v5::ConnectReasonCode, {
    Success = 0x00, UnspecifiedError = 0x80, MalformedPacket = 0x81, ProtocolError = 0x82,
    ImplementationSpecificError = 0x83, UnsupportedProtocolVersion = 0x84, ClientIdentifierNotValid = 0x85,
    BadUserNameOrPassword = 0x86, NotAuthorized = 0x87, ServerUnavailable = 0x88, ServerBusy = 0x89,
    Banned = 0x8A, BadAuthMethod = 0x8C, TopicNameInvalid = 0x90, PacketTooLarge = 0x95, QuotaExceeded = 0x97,
    PayloadFormatInvalid = 0x99, RetainNotSupported = 0x9A, QoSNotSupported = 0x9B, UseAnotherServer = 0x9C,
    ServerMoved = 0x9D, ConnectionRateExceeded = 0x9F
});
code_table!(v5_puback_num, v5_puback_from, v5::PubackReasonCode, {
    Success = 0x00, NoMatchingSubscribers = 0x10, UnspecifiedError = 0x80, ImplementationSpecificError = 0x83,
    NotAuthorized = 0x87, TopicNameInvalid = 0x90, PacketIdentifierInUse = 0x91, QuotaExceeded = 0x97,
    PayloadFormatInvalid = 0x99
});
code_table!(v5_pubrec_num, v5_pubrec_from, v5::PubrecReasonCode, {
    Success = 0x00, NoMatchingSubscribers = 0x10, UnspecifiedError = 0x80, ImplementationSpecificError = 0x83,
    NotAuthorized = 0x87, TopicNameInvalid = 0x90, PacketIdentifierInUse = 0x91, QuotaExceeded = 0x97,
    PayloadFormatInvalid = 0x99
});
code_table!(v5_pubrel_num, v5_pubrel_from, v5::PubrelReasonCode, { Success = 0x00, PacketIdentifierNotFound = 0x92 });
code_table!(v5_pubcomp_num, v5_pubcomp_from, v5::PubcompReasonCode, { Success = 0x00, PacketIdentifierNotFound = 0x92 });
code_table!(v5_suback_num, v5_suback_from, v5::SubscribeReasonCode, {
    GrantedQoS0 = 0x00, GrantedQoS1 = 0x01, GrantedQoS2 = 0x02, UnspecifiedError = 0x80,
    ImplementationSpecificError = 0x83, NotAuthorized = 0x87, TopicFilterInvalid = 0x8F,
    PacketIdentifierInUse = 0x91, QuotaExceeded = 0x97, SharedSubscriptionNotSupported = 0x9E,
    SubscriptionIdentifiersNotSupported = 0xA1, WildcardSubscriptionsNotSupported = 0xA2
});
code_table!(v5_unsuback_num, v5_unsuback_from, v5::UnsubscribeReasonCode, {
    Success = 0x00, NoSubscriptionExisted = 0x11, UnspecifiedError = 0x80, ImplementationSpecificError = 0x83,
    NotAuthorized = 0x87, TopicFilterInvalid = 0x8F, PacketIdentifierInUse = 0x91
});
code_table!(v5_disconnect_num, v5_disconnect_from, v5::DisconnectReasonCode, {
    NormalDisconnect = 0x00, DisconnectWithWillMessage = 0x04, UnspecifiedError = 0x80, MalformedPacket = 0x81,
    ProtocolError = 0x82, ImplementationSpecificError = 0x83, NotAuthorized = 0x87, ServerBusy = 0x89,
    ServerShuttingDown = 0x8B, KeepAliveTimeout = 0x8D, SessionTakenOver = 0x8E, TopicFilterInvalid = 0x8F,
    TopicNameInvalid = 0x90, ReceiveMaximumExceeded = 0x93, TopicAliasInvalid = 0x94, PacketTooLarge = 0x95,
    MessageRateTooHigh = 0x96, QuotaExceeded = 0x97, AdministrativeAction = 0x98, PayloadFormatInvalid = 0x99,
    RetainNotSupported = 0x9A, QoSNotSupported = 0x9B, UserAnotherServer = 0x9C, ServerMoved = 0x9D,
    SharedSubscriptionNotSupported = 0x9E, ConnectionRateExceeded = 0x9F, MaximumConnectTime = 0xA0,
    SubscriptionIdentifiersNotSupported = 0xA1, WildcardSubscriptionsNotSupported = 0xA2
});
code_table!(v5_auth_num, v5_auth_from, v5::AuthReasonCode, { Success = 0x00, ContinueAuthentication = 0x18, ReAuthentication = 0x19 });
code_table!(rh_num, rh_from, v5::RetainHandling, { SendAtSubscribe = 0, SendAtSubscribeIfNotExist = 1, DoNotSend = 2 });
code_table!(prop_id_num, prop_id_from, v5::PropertyId, {
    PayloadFormatIndicator = 0x01, MessageExpiryInterval = 0x02, ContentType = 0x03, ResponseTopic = 0x08,
    CorrelationData = 0x09, SubscriptionIdentifier = 0x0B, SessionExpiryInterval = 0x11,
    AssignedClientIdentifier = 0x12, ServerKeepAlive = 0x13, AuthenticationMethod = 0x15, AuthenticationData = 0x16,
    RequestProblemInformation = 0x17, WillDelayInterval = 0x18, RequestResponseInformation = 0x19,
    ResponseInformation = 0x1A, ServerReference = 0x1C, ReasonString = 0x1F, ReceiveMaximum = 0x21,
    TopicAliasMaximum = 0x22, TopicAlias = 0x23, MaximumQoS = 0x24, RetainAvailable = 0x25, UserProperty = 0x26,
    MaximumPacketSize = 0x27, WildcardSubscriptionAvailable = 0x28, SubscriptionIdentifierAvailable = 0x29,
    SharedSubscriptionAvailable = 0x2A
});

pub fn v3_ptype_num(t: v3::PacketType) -> u8 {
    use v3::PacketType::*;
    match t {
        Connect => 1,
        Connack => 2,
        Publish => 3,
        Puback => 4,
        Pubrec => 5,
        Pubrel => 6,
        Pubcomp => 7,
        Subscribe => 8,
        Suback => 9,
        Unsubscribe => 10,
        Unsuback => 11,
        Pingreq => 12,
        Pingresp => 13,
        Disconnect => 14,
    }
}

pub fn v5_ptype_num(t: v5::PacketType) -> u8 {
    use v5::PacketType::*;
    match t {
        Connect => 1,
        Connack => 2,
        Publish => 3,
        Puback => 4,
        Pubrec => 5,
        Pubrel => 6,
        Pubcomp => 7,
        Subscribe => 8,
        Suback => 9,
        Unsubscribe => 10,
        Unsuback => 11,
        Pingreq => 12,
        Pingresp => 13,
        Disconnect => 14,
        Auth => 15,
    }
}

pub fn proto_pair(p: Protocol) -> (&'static [u8], u8) {
    match p {
        Protocol::V310 => (b"MQIsdp", 3),
        Protocol::V311 => (b"MQTT", 4),
        Protocol::V500 => (b"MQTT", 5),
    }
}

pub fn proto_from(name: &[u8], level: u8) -> Option<Protocol> {
    match (name, level) {
        (b"MQIsdp", 3) => Some(Protocol::V310),
        (b"MQTT", 4) => Some(Protocol::V311),
        (b"MQTT", 5) => Some(Protocol::V500),
        _ => None,
    }
}

// Equal strings inside one packet (a user-property key used twice, the same filter subscribed
// twice) are sometimes handed over as clones of ONE shared value, as applications that intern
// their strings do: reference counts above one, pointer-equal fields.
thread_local! {
    static LAST_STR: std::cell::RefCell<Vec<Arc<String>>> = std::cell::RefCell::new(Vec::new());
    static LAST_FILTER: std::cell::RefCell<Option<TopicFilter>> = std::cell::RefCell::new(None);
    static LAST_NAME: std::cell::RefCell<Option<TopicName>> = std::cell::RefCell::new(None);
}

fn astr(b: &[u8]) -> Option<Arc<String>> {
    LAST_STR.with(|l| {
        let mut l = l.borrow_mut();
        // the last few strings built on this thread: an equal one is shared (pointer-equal keys of
        // repeated user properties, interned identifiers) for about half of the contents
        if crate::rng::fnv_bytes(7, b) % 2 == 0 {
            if let Some(prev) = l.iter().find(|p| p.as_bytes() == b) {
                return Some(prev.clone());
            }
        }
        let a = Arc::new(String::from_utf8(b.to_vec()).ok()?);
        if l.len() >= 8 {
            l.remove(0);
        }
        l.push(a.clone());
        Some(a)
    })
}

fn tname(b: &[u8]) -> Option<TopicName> {
    LAST_NAME.with(|l| {
        let mut l = l.borrow_mut();
        if let Some(prev) = l.as_ref() {
            if prev.as_bytes() == b && b.len() % 2 == 1 {
                return Some(prev.clone());
            }
        }
        let t = TopicName::try_from(String::from_utf8(b.to_vec()).ok()?).ok()?;
        *l = Some(t.clone());
        Some(t)
    })
}

fn tfilter(b: &[u8]) -> Option<TopicFilter> {
    LAST_FILTER.with(|l| {
        let mut l = l.borrow_mut();
        if let Some(prev) = l.as_ref() {
            if prev.as_bytes() == b && b.len() % 2 == 1 {
                return Some(prev.clone());
            }
        }
        let t = TopicFilter::try_from(String::from_utf8(b.to_vec()).ok()?).ok()?;
        *l = Some(t.clone());
        Some(t)
    })
}

fn qospid(qos: u8, pid: Option<u16>) -> Option<QosPid> {
    Some(match (qos, pid) {
        (0, None) => QosPid::Level0,
        (1, Some(p)) => QosPid::Level1(Pid::try_from(p).ok()?),
        (2, Some(p)) => QosPid::Level2(Pid::try_from(p).ok()?),
        _ => return None,
    })
}

fn qospid_parts(q: QosPid) -> (u8, Option<u16>) {
    match q {
        QosPid::Level0 => (0, None),
        QosPid::Level1(p) => (1, Some(p.value())),
        QosPid::Level2(p) => (2, Some(p.value())),
    }
}

// ------------------------------------------------------------------------------------------
// v3

pub fn v3_from_lib(p: &v3::Packet) -> RP {
    match p {
        v3::Packet::Connect(v3::Connect { protocol, clean_session, keep_alive, client_id, last_will, username, password }) => {
            let (name, level) = proto_pair(*protocol);
            RP::Connect {
                name: name.to_vec(),
                level,
                clean: *clean_session,
                keep_alive: *keep_alive,
                client_id: client_id.as_bytes().to_vec(),
                will: last_will.as_ref().map(|v3::LastWill { qos, retain, topic_name, message }| RWill {
                    qos: qos_num(*qos),
                    retain: *retain,
                    topic: topic_name.as_bytes().to_vec(),
                    payload: message.to_vec(),
                    props: Vec::new(),
                }),
                username: username.as_ref().map(|u| u.as_bytes().to_vec()),
                password: password.as_ref().map(|p| p.to_vec()),
                props: Vec::new(),
            }
        }
        v3::Packet::Connack(v3::Connack { session_present, code }) => {
            RP::Connack { sp: *session_present, code: v3_connack_num(*code), props: Vec::new() }
        }
        v3::Packet::Publish(v3::Publish { dup, retain, qos_pid, topic_name, payload }) => {
            let (qos, pid) = qospid_parts(*qos_pid);
            RP::Publish {
                dup: *dup,
                qos,
                retain: *retain,
                topic: topic_name.as_bytes().to_vec(),
                pid,
                props: Vec::new(),
                payload: payload.to_vec(),
            }
        }
        v3::Packet::Puback(pid) => RP::Ack { typ: 4, pid: pid.value(), code: 0, props: Vec::new() },
        v3::Packet::Pubrec(pid) => RP::Ack { typ: 5, pid: pid.value(), code: 0, props: Vec::new() },
        v3::Packet::Pubrel(pid) => RP::Ack { typ: 6, pid: pid.value(), code: 0, props: Vec::new() },
        v3::Packet::Pubcomp(pid) => RP::Ack { typ: 7, pid: pid.value(), code: 0, props: Vec::new() },
        v3::Packet::Subscribe(v3::Subscribe { pid, topics }) => RP::Subscribe {
            pid: pid.value(),
            props: Vec::new(),
            topics: topics.iter().map(|(f, q)| (f.as_bytes().to_vec(), qos_num(*q))).collect(),
        },
        v3::Packet::Suback(v3::Suback { pid, topics }) => {
            RP::Suback { pid: pid.value(), props: Vec::new(), codes: topics.iter().map(|c| v3_suback_num(*c)).collect() }
        }
        v3::Packet::Unsubscribe(v3::Unsubscribe { pid, topics }) => {
            RP::Unsubscribe { pid: pid.value(), props: Vec::new(), topics: topics.iter().map(|f| f.as_bytes().to_vec()).collect() }
        }
        v3::Packet::Unsuback(pid) => RP::Unsuback { pid: pid.value(), props: Vec::new(), codes: Vec::new() },
        v3::Packet::Pingreq => RP::Pingreq,
        v3::Packet::Pingresp => RP::Pingresp,
        v3::Packet::Disconnect => RP::Disconnect { code: 0, props: Vec::new() },
    }
}

// Binary fields are handed to the crate the way applications hold them: sometimes as an owned
// buffer, sometimes as a window into a larger shared buffer (a `Bytes` sub-slice at a non-zero,
// odd offset with spare bytes behind it). Chosen from the content, so a case replays identically.
thread_local! {
    /// binary fields already built for the packet under construction
    static ARENA: std::cell::RefCell<Vec<Bytes>> = std::cell::RefCell::new(Vec::new());
}

/// Start a new packet: forget the fields of the previous one.
fn arena_reset() {
    ARENA.with(|a| a.borrow_mut().clear());
}

fn bytes_of(v: &[u8]) -> Bytes {
    // A field whose content is a prefix of (or equal to) a binary field built earlier for the same
    // packet becomes a window into that very buffer — same start address, as when an application cuts
    // a correlation id and a payload out of one receive buffer, or clones one `Bytes` into two fields.
    if !v.is_empty() {
        let hit = ARENA.with(|a| a.borrow().iter().find(|b| b.len() >= v.len() && &b[..v.len()] == v).cloned());
        if let Some(b) = hit {
            return b.slice(..v.len());
        }
    }
    let b = bytes_fresh(v);
    ARENA.with(|a| a.borrow_mut().push(b.clone()));
    b
}

fn bytes_fresh(v: &[u8]) -> Bytes {
    let h = v.len().wrapping_mul(31) ^ v.first().copied().unwrap_or(0) as usize;
    if h % 3 == 0 {
        let mut big = Vec::with_capacity(v.len() + 12);
        big.extend_from_slice(b"\xde\xad\xbe\xef\x01");
        big.extend_from_slice(v);
        big.extend_from_slice(b"TRAILER");
        Bytes::from(big).slice(5..5 + v.len())
    } else {
        Bytes::from(v.to_vec())
    }
}

pub fn v3_to_lib(p: &RP) -> Option<v3::Packet> {
    arena_reset();
    Some(match p {
        RP::Connect { name, level, clean, keep_alive, client_id, will, username, password, props } => {
            if !props.is_empty() {
                return None;
            }
            let protocol = proto_from(name, *level)?;
            let last_will = match will {
                None => None,
                Some(w) => {
                    if !w.props.is_empty() {
                        return None;
                    }
                    Some(v3::LastWill {
                        qos: qos_from(w.qos)?,
                        retain: w.retain,
                        topic_name: tname(&w.topic)?,
                        message: bytes_of(&w.payload),
                    })
                }
            };
            v3::Packet::Connect(v3::Connect {
                protocol,
                clean_session: *clean,
                keep_alive: *keep_alive,
                client_id: astr(client_id)?,
                last_will,
                username: match username {
                    Some(u) => Some(astr(u)?),
                    None => None,
                },
                password: password.as_ref().map(|p| bytes_of(p)),
            })
        }
        RP::Connack { sp, code, props } => {
            if !props.is_empty() {
                return None;
            }
            v3::Packet::Connack(v3::Connack { session_present: *sp, code: v3_connack_from(*code)? })
        }
        RP::Publish { dup, qos, retain, topic, pid, props, payload } => {
            if !props.is_empty() {
                return None;
            }
            v3::Packet::Publish(v3::Publish {
                dup: *dup,
                retain: *retain,
                qos_pid: qospid(*qos, *pid)?,
                topic_name: tname(topic)?,
                payload: bytes_of(payload),
            })
        }
        RP::Ack { typ, pid, code, props } => {
            if *code != 0 || !props.is_empty() {
                return None;
            }
            let pid = Pid::try_from(*pid).ok()?;
            match typ {
                4 => v3::Packet::Puback(pid),
                5 => v3::Packet::Pubrec(pid),
                6 => v3::Packet::Pubrel(pid),
                7 => v3::Packet::Pubcomp(pid),
                _ => return None,
            }
        }
        RP::Subscribe { pid, props, topics } => {
            if !props.is_empty() {
                return None;
            }
            let mut ts = Vec::new();
            for (f, o) in topics {
                ts.push((tfilter(f)?, qos_from(*o)?));
            }
            v3::Packet::Subscribe(v3::Subscribe { pid: Pid::try_from(*pid).ok()?, topics: ts })
        }
        RP::Suback { pid, props, codes } => {
            if !props.is_empty() {
                return None;
            }
            let mut cs = Vec::new();
            for c in codes {
                cs.push(v3_suback_from(*c)?);
            }
            v3::Packet::Suback(v3::Suback { pid: Pid::try_from(*pid).ok()?, topics: cs })
        }
        RP::Unsubscribe { pid, props, topics } => {
            if !props.is_empty() {
                return None;
            }
            let mut ts = Vec::new();
            for f in topics {
                ts.push(tfilter(f)?);
            }
            v3::Packet::Unsubscribe(v3::Unsubscribe { pid: Pid::try_from(*pid).ok()?, topics: ts })
        }
        RP::Unsuback { pid, props, codes } => {
            if !props.is_empty() || !codes.is_empty() {
                return None;
            }
            v3::Packet::Unsuback(Pid::try_from(*pid).ok()?)
        }
        RP::Pingreq => v3::Packet::Pingreq,
        RP::Pingresp => v3::Packet::Pingresp,
        RP::Disconnect { code, props } => {
            if *code != 0 || !props.is_empty() {
                return None;
            }
            v3::Packet::Disconnect
        }
        RP::Auth { .. } => return None,
    })
}

// ------------------------------------------------------------------------------------------
// v5 property sets

fn ups_from(out: &mut Props, ups: &[v5::UserProperty]) {
    for v5::UserProperty { name, value } in ups {
        out.push((0x26, PV::Pair(name.as_bytes().to_vec(), value.as_bytes().to_vec())));
    }
}

fn ostr(out: &mut Props, id: u8, v: &Option<Arc<String>>) {
    if let Some(s) = v {
        out.push((id, PV::Str(s.as_bytes().to_vec())));
    }
}
fn obin(out: &mut Props, id: u8, v: &Option<Bytes>) {
    if let Some(s) = v {
        out.push((id, PV::Bin(s.to_vec())));
    }
}
fn obool(out: &mut Props, id: u8, v: &Option<bool>) {
    if let Some(b) = v {
        out.push((id, PV::Byte(*b as u8)));
    }
}
fn ou16(out: &mut Props, id: u8, v: &Option<u16>) {
    if let Some(b) = v {
        out.push((id, PV::U16(*b)));
    }
}
fn ou32(out: &mut Props, id: u8, v: &Option<u32>) {
    if let Some(b) = v {
        out.push((id, PV::U32(*b)));
    }
}

pub fn connect_props_from(p: &v5::ConnectProperties) -> Props {
    let v5::ConnectProperties {
        session_expiry_interval,
        receive_max,
        max_packet_size,
        topic_alias_max,
        request_response_info,
        request_problem_info,
        user_properties,
        auth_method,
        auth_data,
    } = p;
    let mut o = Vec::new();
    ou32(&mut o, 0x11, session_expiry_interval);
    ou16(&mut o, 0x21, receive_max);
    ou32(&mut o, 0x27, max_packet_size);
    ou16(&mut o, 0x22, topic_alias_max);
    obool(&mut o, 0x19, request_response_info);
    obool(&mut o, 0x17, request_problem_info);
    ostr(&mut o, 0x15, auth_method);
    obin(&mut o, 0x16, auth_data);
    ups_from(&mut o, user_properties);
    o
}

pub fn will_props_from(p: &v5::WillProperties) -> Props {
    let v5::WillProperties {
        delay_interval,
        payload_is_utf8,
        message_expiry_interval,
        content_type,
        response_topic,
        correlation_data,
        user_properties,
    } = p;
    let mut o = Vec::new();
    ou32(&mut o, 0x18, delay_interval);
    obool(&mut o, 0x01, payload_is_utf8);
    ou32(&mut o, 0x02, message_expiry_interval);
    ostr(&mut o, 0x03, content_type);
    if let Some(t) = response_topic {
        o.push((0x08, PV::Str(t.as_bytes().to_vec())));
    }
    obin(&mut o, 0x09, correlation_data);
    ups_from(&mut o, user_properties);
    o
}

pub fn connack_props_from(p: &v5::ConnackProperties) -> Props {
    let v5::ConnackProperties {
        session_expiry_interval,
        receive_max,
        max_qos,
        retain_available,
        max_packet_size,
        assigned_client_id,
        topic_alias_max,
        reason_string,
        user_properties,
        wildcard_subscription_available,
        subscription_id_available,
        shared_subscription_available,
        server_keep_alive,
        response_info,
        server_reference,
        auth_method,
        auth_data,
    } = p;
    let mut o = Vec::new();
    ou32(&mut o, 0x11, session_expiry_interval);
    ou16(&mut o, 0x21, receive_max);
    if let Some(q) = max_qos {
        o.push((0x24, PV::Byte(qos_num(*q))));
    }
    obool(&mut o, 0x25, retain_available);
    ou32(&mut o, 0x27, max_packet_size);
    ostr(&mut o, 0x12, assigned_client_id);
    ou16(&mut o, 0x22, topic_alias_max);
    ostr(&mut o, 0x1F, reason_string);
    obool(&mut o, 0x28, wildcard_subscription_available);
    obool(&mut o, 0x29, subscription_id_available);
    obool(&mut o, 0x2A, shared_subscription_available);
    ou16(&mut o, 0x13, server_keep_alive);
    ostr(&mut o, 0x1A, response_info);
    ostr(&mut o, 0x1C, server_reference);
    ostr(&mut o, 0x15, auth_method);
    obin(&mut o, 0x16, auth_data);
    ups_from(&mut o, user_properties);
    o
}

pub fn publish_props_from(p: &v5::PublishProperties) -> Props {
    let v5::PublishProperties {
        payload_is_utf8,
        message_expiry_interval,
        topic_alias,
        response_topic,
        correlation_data,
        user_properties,
        subscription_id,
        content_type,
    } = p;
    let mut o = Vec::new();
    obool(&mut o, 0x01, payload_is_utf8);
    ou32(&mut o, 0x02, message_expiry_interval);
    ou16(&mut o, 0x23, topic_alias);
    if let Some(t) = response_topic {
        o.push((0x08, PV::Str(t.as_bytes().to_vec())));
    }
    obin(&mut o, 0x09, correlation_data);
    if let Some(s) = subscription_id {
        o.push((0x0B, PV::Var(s.value())));
    }
    ostr(&mut o, 0x03, content_type);
    ups_from(&mut o, user_properties);
    o
}

macro_rules! reason_props_impl {
    ($from:ident, $to:ident, $($path:ident)::+) => {
        pub fn $from(p: &$($path)::+) -> Props {
            let $($path)::+ { reason_string, user_properties } = p;
            let mut o = Vec::new();
            ostr(&mut o, 0x1F, reason_string);
            ups_from(&mut o, user_properties);
            o
        }
        pub fn $to(props: &Props) -> Option<$($path)::+> {
            let mut b = PropBuilder::new(props)?;
            let r = $($path)::+ { reason_string: b.str(0x1F)?, user_properties: b.ups()? };
            b.done()?;
            Some(r)
        }
    };
}

reason_props_impl!(puback_props_from, puback_props_to, v5::PubackProperties);
reason_props_impl!(pubrec_props_from, pubrec_props_to, v5::PubrecProperties);
reason_props_impl!(pubrel_props_from, pubrel_props_to, v5::PubrelProperties);
reason_props_impl!(pubcomp_props_from, pubcomp_props_to, v5::PubcompProperties);
reason_props_impl!(suback_props_from, suback_props_to, v5::SubackProperties);
reason_props_impl!(unsuback_props_from, unsuback_props_to, v5::UnsubackProperties);

pub fn subscribe_props_from(p: &v5::SubscribeProperties) -> Props {
    let v5::SubscribeProperties { subscription_id, user_properties } = p;
    let mut o = Vec::new();
    if let Some(s) = subscription_id {
        o.push((0x0B, PV::Var(s.value())));
    }
    ups_from(&mut o, user_properties);
    o
}

pub fn unsubscribe_props_from(p: &v5::UnsubscribeProperties) -> Props {
    let v5::UnsubscribeProperties { user_properties } = p;
    let mut o = Vec::new();
    ups_from(&mut o, user_properties);
    o
}

pub fn disconnect_props_from(p: &v5::DisconnectProperties) -> Props {
    let v5::DisconnectProperties { session_expiry_interval, reason_string, user_properties, server_reference } = p;
    let mut o = Vec::new();
    ou32(&mut o, 0x11, session_expiry_interval);
    ostr(&mut o, 0x1F, reason_string);
    ostr(&mut o, 0x1C, server_reference);
    ups_from(&mut o, user_properties);
    o
}

pub fn auth_props_from(p: &v5::AuthProperties) -> Props {
    let v5::AuthProperties { auth_method, auth_data, reason_string, user_properties } = p;
    let mut o = Vec::new();
    ostr(&mut o, 0x15, auth_method);
    obin(&mut o, 0x16, auth_data);
    ostr(&mut o, 0x1F, reason_string);
    ups_from(&mut o, user_properties);
    o
}

/// Consumes a reference property list while building a crate property struct; `done` fails if
/// some property was not consumed (not representable in that struct) or appeared twice.
pub struct PropBuilder<'a> {
    props: &'a Props,
    used: Vec<bool>,
}

impl<'a> PropBuilder<'a> {
    pub fn new(props: &'a Props) -> Option<PropBuilder<'a>> {
        Some(PropBuilder { props, used: vec![false; props.len()] })
    }
    fn take(&mut self, id: u8) -> Option<Option<&'a PV>> {
        let mut found = None;
        for (i, (pid, v)) in self.props.iter().enumerate() {
            if *pid == id {
                if found.is_some() {
                    return None; // duplicate: not representable
                }
                self.used[i] = true;
                found = Some(v);
            }
        }
        Some(found)
    }
    pub fn str(&mut self, id: u8) -> Option<Option<Arc<String>>> {
        match self.take(id)? {
            None => Some(None),
            Some(PV::Str(s)) => Some(Some(astr(s)?)),
            _ => None,
        }
    }
    pub fn topic(&mut self, id: u8) -> Option<Option<TopicName>> {
        match self.take(id)? {
            None => Some(None),
            Some(PV::Str(s)) => Some(Some(tname(s)?)),
            _ => None,
        }
    }
    pub fn bin(&mut self, id: u8) -> Option<Option<Bytes>> {
        match self.take(id)? {
            None => Some(None),
            Some(PV::Bin(s)) => Some(Some(bytes_of(s))),
            _ => None,
        }
    }
    pub fn boolean(&mut self, id: u8) -> Option<Option<bool>> {
        match self.take(id)? {
            None => Some(None),
            Some(PV::Byte(0)) => Some(Some(false)),
            Some(PV::Byte(1)) => Some(Some(true)),
            _ => None,
        }
    }
    pub fn qos01(&mut self, id: u8) -> Option<Option<QoS>> {
        match self.take(id)? {
            None => Some(None),
            Some(PV::Byte(0)) => Some(Some(QoS::Level0)),
            Some(PV::Byte(1)) => Some(Some(QoS::Level1)),
            _ => None,
        }
    }
    pub fn u16(&mut self, id: u8) -> Option<Option<u16>> {
        match self.take(id)? {
            None => Some(None),
            Some(PV::U16(v)) => Some(Some(*v)),
            _ => None,
        }
    }
    pub fn u32(&mut self, id: u8) -> Option<Option<u32>> {
        match self.take(id)? {
            None => Some(None),
            Some(PV::U32(v)) => Some(Some(*v)),
            _ => None,
        }
    }
    pub fn var(&mut self, id: u8) -> Option<Option<v5::VarByteInt>> {
        match self.take(id)? {
            None => Some(None),
            Some(PV::Var(v)) => Some(Some(v5::VarByteInt::try_from(*v).ok()?)),
            _ => None,
        }
    }
    pub fn ups(&mut self) -> Option<Vec<v5::UserProperty>> {
        let mut out = Vec::new();
        for (i, (pid, v)) in self.props.iter().enumerate() {
            if *pid == 0x26 {
                self.used[i] = true;
                match v {
                    PV::Pair(k, v) => out.push(v5::UserProperty { name: astr(k)?, value: astr(v)? }),
                    _ => return None,
                }
            }
        }
        Some(out)
    }
    pub fn done(&self) -> Option<()> {
        if self.used.iter().all(|u| *u) {
            Some(())
        } else {
            None
        }
    }
}

pub fn connect_props_to(props: &Props) -> Option<v5::ConnectProperties> {
    let mut b = PropBuilder::new(props)?;
    let r = v5::ConnectProperties {
        session_expiry_interval: b.u32(0x11)?,
        receive_max: b.u16(0x21)?,
        max_packet_size: b.u32(0x27)?,
        topic_alias_max: b.u16(0x22)?,
        request_response_info: b.boolean(0x19)?,
        request_problem_info: b.boolean(0x17)?,
        user_properties: b.ups()?,
        auth_method: b.str(0x15)?,
        auth_data: b.bin(0x16)?,
    };
    b.done()?;
    Some(r)
}

pub fn will_props_to(props: &Props) -> Option<v5::WillProperties> {
    let mut b = PropBuilder::new(props)?;
    let r = v5::WillProperties {
        delay_interval: b.u32(0x18)?,
        payload_is_utf8: b.boolean(0x01)?,
        message_expiry_interval: b.u32(0x02)?,
        content_type: b.str(0x03)?,
        response_topic: b.topic(0x08)?,
        correlation_data: b.bin(0x09)?,
        user_properties: b.ups()?,
    };
    b.done()?;
    Some(r)
}

pub fn connack_props_to(props: &Props) -> Option<v5::ConnackProperties> {
    let mut b = PropBuilder::new(props)?;
    let r = v5::ConnackProperties {
        session_expiry_interval: b.u32(0x11)?,
        receive_max: b.u16(0x21)?,
        max_qos: b.qos01(0x24)?,
        retain_available: b.boolean(0x25)?,
        max_packet_size: b.u32(0x27)?,
        assigned_client_id: b.str(0x12)?,
        topic_alias_max: b.u16(0x22)?,
        reason_string: b.str(0x1F)?,
        user_properties: b.ups()?,
        wildcard_subscription_available: b.boolean(0x28)?,
        subscription_id_available: b.boolean(0x29)?,
        shared_subscription_available: b.boolean(0x2A)?,
        server_keep_alive: b.u16(0x13)?,
        response_info: b.str(0x1A)?,
        server_reference: b.str(0x1C)?,
        auth_method: b.str(0x15)?,
        auth_data: b.bin(0x16)?,
    };
    b.done()?;
    Some(r)
}

pub fn publish_props_to(props: &Props) -> Option<v5::PublishProperties> {
    let mut b = PropBuilder::new(props)?;
    let r = v5::PublishProperties {
        payload_is_utf8: b.boolean(0x01)?,
        message_expiry_interval: b.u32(0x02)?,
        topic_alias: b.u16(0x23)?,
        response_topic: b.topic(0x08)?,
        correlation_data: b.bin(0x09)?,
        user_properties: b.ups()?,
        subscription_id: b.var(0x0B)?,
        content_type: b.str(0x03)?,
    };
    b.done()?;
    Some(r)
}

pub fn subscribe_props_to(props: &Props) -> Option<v5::SubscribeProperties> {
    let mut b = PropBuilder::new(props)?;
    let r = v5::SubscribeProperties { subscription_id: b.var(0x0B)?, user_properties: b.ups()? };
    b.done()?;
    Some(r)
}

pub fn unsubscribe_props_to(props: &Props) -> Option<v5::UnsubscribeProperties> {
    let mut b = PropBuilder::new(props)?;
    let r = v5::UnsubscribeProperties { user_properties: b.ups()? };
    b.done()?;
    Some(r)
}

pub fn disconnect_props_to(props: &Props) -> Option<v5::DisconnectProperties> {
    let mut b = PropBuilder::new(props)?;
    let r = v5::DisconnectProperties {
        session_expiry_interval: b.u32(0x11)?,
        reason_string: b.str(0x1F)?,
        user_properties: b.ups()?,
        server_reference: b.str(0x1C)?,
    };
    b.done()?;
    Some(r)
}

pub fn auth_props_to(props: &Props) -> Option<v5::AuthProperties> {
    let mut b = PropBuilder::new(props)?;
    let r = v5::AuthProperties {
        auth_method: b.str(0x15)?,
        auth_data: b.bin(0x16)?,
        reason_string: b.str(0x1F)?,
        user_properties: b.ups()?,
    };
    b.done()?;
    Some(r)
}

pub fn subopts_num(o: &v5::SubscriptionOptions) -> u8 {
    let v5::SubscriptionOptions { max_qos, no_local, retain_as_published, retain_handling } = o;
    qos_num(*max_qos) | ((*no_local as u8) << 2) | ((*retain_as_published as u8) << 3) | (rh_num(*retain_handling) << 4)
}

pub fn subopts_from(b: u8) -> Option<v5::SubscriptionOptions> {
    if b & 0xC0 != 0 {
        return None;
    }
    Some(v5::SubscriptionOptions {
        max_qos: qos_from(b & 3)?,
        no_local: b & 4 != 0,
        retain_as_published: b & 8 != 0,
        retain_handling: rh_from((b >> 4) & 3)?,
    })
}

// ------------------------------------------------------------------------------------------
// v5 packets

pub fn v5_from_lib(p: &v5::Packet) -> RP {
    match p {
        v5::Packet::Connect(v5::Connect { protocol, clean_start, keep_alive, properties, client_id, last_will, username, password }) => {
            let (name, level) = proto_pair(*protocol);
            RP::Connect {
                name: name.to_vec(),
                level,
                clean: *clean_start,
                keep_alive: *keep_alive,
                client_id: client_id.as_bytes().to_vec(),
                will: last_will.as_ref().map(|v5::LastWill { qos, retain, topic_name, payload, properties }| RWill {
                    qos: qos_num(*qos),
                    retain: *retain,
                    topic: topic_name.as_bytes().to_vec(),
                    payload: payload.to_vec(),
                    props: will_props_from(properties),
                }),
                username: username.as_ref().map(|u| u.as_bytes().to_vec()),
                password: password.as_ref().map(|p| p.to_vec()),
                props: connect_props_from(properties),
            }
        }
        v5::Packet::Connack(v5::Connack { session_present, reason_code, properties }) => {
            RP::Connack { sp: *session_present, code: v5_connack_num(*reason_code), props: connack_props_from(properties) }
        }
        v5::Packet::Publish(v5::Publish { dup, retain, qos_pid, topic_name, payload, properties }) => {
            let (qos, pid) = qospid_parts(*qos_pid);
            RP::Publish {
                dup: *dup,
                qos,
                retain: *retain,
                topic: topic_name.as_bytes().to_vec(),
                pid,
                props: publish_props_from(properties),
                payload: payload.to_vec(),
            }
        }
        v5::Packet::Puback(v5::Puback { pid, reason_code, properties }) => {
            RP::Ack { typ: 4, pid: pid.value(), code: v5_puback_num(*reason_code), props: puback_props_from(properties) }
        }
        v5::Packet::Pubrec(v5::Pubrec { pid, reason_code, properties }) => {
            RP::Ack { typ: 5, pid: pid.value(), code: v5_pubrec_num(*reason_code), props: pubrec_props_from(properties) }
        }
        v5::Packet::Pubrel(v5::Pubrel { pid, reason_code, properties }) => {
            RP::Ack { typ: 6, pid: pid.value(), code: v5_pubrel_num(*reason_code), props: pubrel_props_from(properties) }
        }
        v5::Packet::Pubcomp(v5::Pubcomp { pid, reason_code, properties }) => {
            RP::Ack { typ: 7, pid: pid.value(), code: v5_pubcomp_num(*reason_code), props: pubcomp_props_from(properties) }
        }
        v5::Packet::Subscribe(v5::Subscribe { pid, properties, topics }) => RP::Subscribe {
            pid: pid.value(),
            props: subscribe_props_from(properties),
            topics: topics.iter().map(|(f, o)| (f.as_bytes().to_vec(), subopts_num(o))).collect(),
        },
        v5::Packet::Suback(v5::Suback { pid, properties, topics }) => RP::Suback {
            pid: pid.value(),
            props: suback_props_from(properties),
            codes: topics.iter().map(|c| v5_suback_num(*c)).collect(),
        },
        v5::Packet::Unsubscribe(v5::Unsubscribe { pid, properties, topics }) => RP::Unsubscribe {
            pid: pid.value(),
            props: unsubscribe_props_from(properties),
            topics: topics.iter().map(|f| f.as_bytes().to_vec()).collect(),
        },
        v5::Packet::Unsuback(v5::Unsuback { pid, properties, topics }) => RP::Unsuback {
            pid: pid.value(),
            props: unsuback_props_from(properties),
            codes: topics.iter().map(|c| v5_unsuback_num(*c)).collect(),
        },
        v5::Packet::Pingreq => RP::Pingreq,
        v5::Packet::Pingresp => RP::Pingresp,
        v5::Packet::Disconnect(v5::Disconnect { reason_code, properties }) => {
            RP::Disconnect { code: v5_disconnect_num(*reason_code), props: disconnect_props_from(properties) }
        }
        v5::Packet::Auth(v5::Auth { reason_code, properties }) => {
            RP::Auth { code: v5_auth_num(*reason_code), props: auth_props_from(properties) }
        }
    }
}

pub fn v5_to_lib(p: &RP) -> Option<v5::Packet> {
    arena_reset();
    Some(match p {
        RP::Connect { name, level, clean, keep_alive, client_id, will, username, password, props } => {
            let protocol = proto_from(name, *level)?;
            let last_will = match will {
                None => None,
                Some(w) => Some(v5::LastWill {
                    qos: qos_from(w.qos)?,
                    retain: w.retain,
                    topic_name: tname(&w.topic)?,
                    payload: bytes_of(&w.payload),
                    properties: will_props_to(&w.props)?,
                }),
            };
            v5::Packet::Connect(v5::Connect {
                protocol,
                clean_start: *clean,
                keep_alive: *keep_alive,
                properties: connect_props_to(props)?,
                client_id: astr(client_id)?,
                last_will,
                username: match username {
                    Some(u) => Some(astr(u)?),
                    None => None,
                },
                password: password.as_ref().map(|p| bytes_of(p)),
            })
        }
        RP::Connack { sp, code, props } => v5::Packet::Connack(v5::Connack {
            session_present: *sp,
            reason_code: v5_connack_from(*code)?,
            properties: connack_props_to(props)?,
        }),
        RP::Publish { dup, qos, retain, topic, pid, props, payload } => v5::Packet::Publish(v5::Publish {
            dup: *dup,
            retain: *retain,
            qos_pid: qospid(*qos, *pid)?,
            topic_name: tname(topic)?,
            payload: bytes_of(payload),
            properties: publish_props_to(props)?,
        }),
        RP::Ack { typ, pid, code, props } => {
            let pid = Pid::try_from(*pid).ok()?;
            match typ {
                4 => v5::Packet::Puback(v5::Puback { pid, reason_code: v5_puback_from(*code)?, properties: puback_props_to(props)? }),
                5 => v5::Packet::Pubrec(v5::Pubrec { pid, reason_code: v5_pubrec_from(*code)?, properties: pubrec_props_to(props)? }),
                6 => v5::Packet::Pubrel(v5::Pubrel { pid, reason_code: v5_pubrel_from(*code)?, properties: pubrel_props_to(props)? }),
                7 => v5::Packet::Pubcomp(v5::Pubcomp { pid, reason_code: v5_pubcomp_from(*code)?, properties: pubcomp_props_to(props)? }),
                _ => return None,
            }
        }
        RP::Subscribe { pid, props, topics } => {
            let mut ts = Vec::new();
            for (f, o) in topics {
                ts.push((tfilter(f)?, subopts_from(*o)?));
            }
            v5::Packet::Subscribe(v5::Subscribe { pid: Pid::try_from(*pid).ok()?, properties: subscribe_props_to(props)?, topics: ts })
        }
        RP::Suback { pid, props, codes } => {
            let mut cs = Vec::new();
            for c in codes {
                cs.push(v5_suback_from(*c)?);
            }
            v5::Packet::Suback(v5::Suback { pid: Pid::try_from(*pid).ok()?, properties: suback_props_to(props)?, topics: cs })
        }
        RP::Unsubscribe { pid, props, topics } => {
            let mut ts = Vec::new();
            for f in topics {
                ts.push(tfilter(f)?);
            }
            v5::Packet::Unsubscribe(v5::Unsubscribe { pid: Pid::try_from(*pid).ok()?, properties: unsubscribe_props_to(props)?, topics: ts })
        }
        RP::Unsuback { pid, props, codes } => {
            let mut cs = Vec::new();
            for c in codes {
                cs.push(v5_unsuback_from(*c)?);
            }
            v5::Packet::Unsuback(v5::Unsuback { pid: Pid::try_from(*pid).ok()?, properties: unsuback_props_to(props)?, topics: cs })
        }
        RP::Pingreq => v5::Packet::Pingreq,
        RP::Pingresp => v5::Packet::Pingresp,
        RP::Disconnect { code, props } => v5::Packet::Disconnect(v5::Disconnect {
            reason_code: v5_disconnect_from(*code)?,
            properties: disconnect_props_to(props)?,
        }),
        RP::Auth { code, props } => {
            v5::Packet::Auth(v5::Auth { reason_code: v5_auth_from(*code)?, properties: auth_props_to(props)? })
        }
    })
}

// ------------------------------------------------------------------------------------------
// errors: map the crate's error values onto the spec-level classes

pub fn v3_err_to_ref(e: &mqtt_proto::Error) -> Option<RefErr> {
    use mqtt_proto::Error as E;
    Some(match e {
        E::InvalidRemainingLength => RefErr::RemLen,
        E::EmptySubscription => RefErr::EmptySubscription,
        E::ZeroPid => RefErr::ZeroPid,
        E::InvalidQos(n) => RefErr::Qos(*n),
        E::InvalidConnectFlags(n) => RefErr::ConnectFlags(*n),
        E::InvalidConnackFlags(n) => RefErr::ConnackFlags(*n),
        E::InvalidConnectReturnCode(n) => RefErr::ConnectReturnCode(*n),
        E::InvalidProtocol(name, level) => RefErr::Protocol(name.as_bytes().to_vec(), *level),
        E::UnexpectedProtocol(p) => RefErr::UnexpectedProtocol(proto_pair(*p).1),
        E::InvalidHeader => RefErr::Header,
        E::InvalidVarByteInt => RefErr::VarInt,
        E::InvalidTopicName(s) => RefErr::TopicName(s.as_bytes().to_vec()),
        E::InvalidTopicFilter(s) => RefErr::TopicFilter(s.as_bytes().to_vec()),
        E::InvalidString => RefErr::BadString,
        E::IoError(_, _) => return None,
    })
}

pub fn v5_err_to_ref(e: &v5::ErrorV5) -> Option<RefErr> {
    use v5::ErrorV5 as E;
    Some(match e {
        E::Common(c) => return v3_err_to_ref(c),
        E::InvalidReasonCode(t, n) => RefErr::ReasonCode(v5_ptype_num(*t), *n),
        E::InvalidSubscriptionOption(n) => RefErr::SubOpt(*n),
        E::InvalidPayloadFormat => RefErr::PayloadFormat,
        E::InvalidResponseTopic => RefErr::ResponseTopic,
        E::InvalidPropertyId(n) => RefErr::PropId(*n),
        E::InvalidPropertyLength(n) => RefErr::PropLen(*n),
        E::InvalidByteProperty(id, n) => RefErr::ByteProp(prop_id_num(*id), *n),
        E::DuplicatedProperty(id) => RefErr::DupProp(prop_id_num(*id)),
        E::InvalidProperty(t, id) => RefErr::PropNotAllowed(v5_ptype_num(*t), prop_id_num(*id)),
        E::InvalidWillProperty(id) => RefErr::WillPropNotAllowed(prop_id_num(*id)),
    })
}

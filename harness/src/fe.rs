//! Uniform access to the three decoder front-ends and the encoders of both families.

use std::io;
use std::mem::MaybeUninit;
use std::task::Poll;

use mqtt_proto::{v3, v5, GenericPollPacket, GenericPollPacketState, PollHeader};

use crate::conv;
use crate::io::{run, Exec, ROut, ReadEv, RunErr, ScriptedReader};
use crate::refm::{Fam, RefErr, RP};

#[derive(Clone, Debug, PartialEq, Eq)]
pub enum Pkt {
    V3(v3::Packet),
    V5(v5::Packet),
}

impl Pkt {
    pub fn to_ref(&self) -> RP {
        match self {
            Pkt::V3(p) => conv::v3_from_lib(p),
            Pkt::V5(p) => conv::v5_from_lib(p),
        }
    }
    pub fn fam(&self) -> Fam {
        match self {
            Pkt::V3(_) => Fam::V3,
            Pkt::V5(_) => Fam::V5,
        }
    }
    pub fn from_ref(fam: Fam, p: &RP) -> Option<Pkt> {
        match fam {
            Fam::V3 => conv::v3_to_lib(p).map(Pkt::V3),
            Fam::V5 => conv::v5_to_lib(p).map(Pkt::V5),
        }
    }
    pub fn encode(&self) -> Result<Vec<u8>, Er> {
        match self {
            Pkt::V3(p) => p.encode().map(|v| v.as_ref().to_vec()).map_err(Er::V3),
            Pkt::V5(p) => p.encode().map(|v| v.as_ref().to_vec()).map_err(|e| Er::V5(v5::ErrorV5::Common(e))),
        }
    }
    pub fn encode_len(&self) -> Result<usize, Er> {
        match self {
            Pkt::V3(p) => p.encode_len().map_err(Er::V3),
            Pkt::V5(p) => p.encode_len().map_err(Er::V5),
        }
    }
    pub fn type_name(&self) -> &'static str {
        crate::refm::TYPE_NAMES[self.to_ref_typ() as usize]
    }
    pub fn to_ref_typ(&self) -> u8 {
        match self {
            Pkt::V3(p) => conv::v3_ptype_num(p.get_type()),
            Pkt::V5(p) => conv::v5_ptype_num(p.get_type()),
        }
    }
}

#[derive(Clone, Debug, PartialEq, Eq)]
pub enum Er {
    V3(mqtt_proto::Error),
    V5(v5::ErrorV5),
}

impl Er {
    pub fn is_eof(&self) -> bool {
        match self {
            Er::V3(e) => e.is_eof(),
            Er::V5(e) => e.is_eof(),
        }
    }
    pub fn io_kind(&self) -> Option<io::ErrorKind> {
        match self {
            Er::V3(mqtt_proto::Error::IoError(k, _)) => Some(*k),
            Er::V5(v5::ErrorV5::Common(mqtt_proto::Error::IoError(k, _))) => Some(*k),
            _ => None,
        }
    }
    pub fn to_ref(&self) -> Option<RefErr> {
        match self {
            Er::V3(e) => conv::v3_err_to_ref(e),
            Er::V5(e) => conv::v5_err_to_ref(e),
        }
    }
    pub fn is_remlen(&self) -> bool {
        matches!(self.to_ref(), Some(RefErr::RemLen))
    }
    /// short class name for histograms
    pub fn class(&self) -> String {
        match self.to_ref() {
            Some(r) => r.class().to_string(),
            None => match self.io_kind() {
                Some(k) => format!("Io:{:?}", k),
                None => "Io".into(),
            },
        }
    }
}

#[derive(Clone, Debug, PartialEq, Eq)]
pub enum DecOut {
    Pkt(Pkt),
    Incomplete,
    Err(Er),
}

impl DecOut {
    pub fn class(&self) -> String {
        match self {
            DecOut::Pkt(_) => "packet".into(),
            DecOut::Incomplete => "incomplete".into(),
            DecOut::Err(e) => e.class(),
        }
    }
}

/// Blocking slice decoder.
pub fn dec_block(fam: Fam, b: &[u8]) -> DecOut {
    match fam {
        Fam::V3 => match v3::Packet::decode(b) {
            Ok(Some(p)) => DecOut::Pkt(Pkt::V3(p)),
            Ok(None) => DecOut::Incomplete,
            Err(e) => DecOut::Err(Er::V3(e)),
        },
        Fam::V5 => match v5::Packet::decode(b) {
            Ok(Some(p)) => DecOut::Pkt(Pkt::V5(p)),
            Ok(None) => DecOut::Incomplete,
            Err(e) => DecOut::Err(Er::V5(e)),
        },
    }
}

#[derive(Debug)]
pub enum Drive<T> {
    Done(T),
    /// harness-level failure to drive the future (lost wake-up or poll budget)
    Stuck(RunErr),
}

/// Async decoder over a scripted reader.
pub fn dec_async(fam: Fam, r: &mut ScriptedReader, budget: usize) -> Drive<Result<Pkt, Er>> {
    match fam {
        Fam::V3 => match run(v3::Packet::decode_async(r), budget) {
            Ok((v, _)) => Drive::Done(v.map(Pkt::V3).map_err(Er::V3)),
            Err(e) => Drive::Stuck(e),
        },
        Fam::V5 => match run(v5::Packet::decode_async(r), budget) {
            Ok((v, _)) => Drive::Done(v.map(Pkt::V5).map_err(Er::V5)),
            Err(e) => Drive::Stuck(e),
        },
    }
}

pub fn dec_async_bytes(fam: Fam, b: &[u8]) -> (Drive<Result<Pkt, Er>>, usize) {
    let mut r = ScriptedReader::ready(b);
    r.keep_log = false;
    let d = dec_async(fam, &mut r, b.len() + 16);
    (d, r.pos)
}

// ------------------------------------------------------------------------------------------
// poll front-end

#[derive(Clone, Copy, Debug, PartialEq, Eq)]
pub enum PollMode {
    /// one future object polled to completion
    Keep,
    /// a fresh future is built from the caller-held state for every poll
    Recreate,
}

#[derive(Clone, Debug, PartialEq, Eq)]
pub struct PollOk {
    pub total: usize,
    pub body: Vec<u8>,
    pub pkt: Pkt,
}

#[derive(Clone, Debug, PartialEq, Eq)]
pub enum Snap {
    Header { have_ctl: bool, var_idx: u8, var_int: u32 },
    Body { total: usize, idx: usize, buf_len: usize, remaining_len: usize },
}

pub struct PollRun {
    pub out: Drive<Result<PollOk, Er>>,
    pub polls: usize,
    pub recreations: usize,
    /// protocol violations of the Future/AsyncRead contract observed while driving
    pub contract: Vec<String>,
    /// (reader position, state) at every Pending, Recreate mode only
    pub snaps: Vec<(usize, Snap)>,
}

pub fn body_to_vec(v: Vec<MaybeUninit<u8>>) -> Vec<u8> {
    // Reading every element is deliberate: under Miri / memcheck this observes whether the
    // decoder handed back uninitialised memory.
    v.iter().map(|b| unsafe { b.assume_init() }).collect()
}

fn snap_of<H: PollHeader + Copy>(s: &GenericPollPacketState<H>) -> Snap {
    match s {
        GenericPollPacketState::Header(h) => Snap::Header { have_ctl: h.control_byte.is_some(), var_idx: h.var_idx, var_int: h.var_int },
        GenericPollPacketState::Body(b) => {
            Snap::Body { total: b.total, idx: b.idx, buf_len: b.buf.len(), remaining_len: b.header.remaining_len() }
        }
    }
}

/// Generic driver; `wrap` converts the family's packet/error into the uniform types.
/// `clone_at`: at that Pending (0-based) the state is cloned and returned with the reader position.
pub fn drive_poll_generic<H, FP, FE>(
    state: &mut GenericPollPacketState<H>,
    r: &mut ScriptedReader,
    mode: PollMode,
    budget: usize,
    clone_at: Option<usize>,
    wrap_p: FP,
    wrap_e: FE,
) -> (PollRun, Option<(usize, GenericPollPacketState<H>)>)
where
    H: PollHeader + Copy + Unpin + Clone,
    H::Error: From<io::Error> + From<mqtt_proto::Error>,
    FP: Fn(H::Packet) -> Pkt,
    FE: Fn(H::Error) -> Er,
{
    let mut ex = Exec::new();
    let mut contract = Vec::new();
    let mut snaps = Vec::new();
    let mut recreations = 0;
    let mut cloned = None;
    let mut npending = 0usize;
    let fin = |res: Result<(usize, Vec<MaybeUninit<u8>>, H::Packet), H::Error>| match res {
        Ok((total, body, p)) => Ok(PollOk { total, body: body_to_vec(body), pkt: wrap_p(p) }),
        Err(e) => Err(wrap_e(e)),
    };
    let out = match mode {
        PollMode::Keep => {
            // The future borrows state and reader; we cannot look at them between polls here.
            let mut result = None;
            {
                let pend0 = r.pendings;
                let _ = pend0;
                let mut fut = GenericPollPacket::new(state, r);
                loop {
                    let wakes = ex.wakes();
                    match ex.poll(&mut fut) {
                        Poll::Ready(v) => {
                            result = Some(Drive::Done(v));
                            break;
                        }
                        Poll::Pending => {
                            if ex.wakes() == wakes {
                                result = Some(Drive::Stuck(RunErr::LostWake { polls: ex.polls }));
                                break;
                            }
                            if ex.polls >= budget {
                                result = Some(Drive::Stuck(RunErr::Budget { polls: ex.polls }));
                                break;
                            }
                        }
                    }
                }
            }
            match result.unwrap() {
                Drive::Done(v) => Drive::Done(fin(v)),
                Drive::Stuck(e) => Drive::Stuck(e),
            }
        }
        PollMode::Recreate => loop {
            let wakes = ex.wakes();
            let pend_before = r.pendings;
            let reads_before = r.reads;
            let res = {
                let mut fut = GenericPollPacket::new(state, r);
                recreations += 1;
                ex.poll(&mut fut)
            };
            let transport_pended = r.pendings > pend_before;
            match res {
                Poll::Ready(v) => {
                    if transport_pended {
                        contract.push(format!("Ready in a poll where the transport returned Pending (poll {})", ex.polls));
                    }
                    break Drive::Done(fin(v));
                }
                Poll::Pending => {
                    if !transport_pended {
                        contract.push(format!(
                            "Pending invented: transport did not return Pending in poll {} ({} reads)",
                            ex.polls,
                            r.reads - reads_before
                        ));
                    }
                    if ex.wakes() == wakes {
                        break Drive::Stuck(RunErr::LostWake { polls: ex.polls });
                    }
                    if ex.polls >= budget {
                        break Drive::Stuck(RunErr::Budget { polls: ex.polls });
                    }
                    snaps.push((r.pos, snap_of(state)));
                    if clone_at == Some(npending) {
                        cloned = Some((r.pos, state.clone()));
                    }
                    npending += 1;
                }
            }
        },
    };
    (PollRun { out, polls: ex.polls, recreations, contract, snaps }, cloned)
}

pub fn drive_poll(fam: Fam, r: &mut ScriptedReader, mode: PollMode, budget: usize) -> PollRun {
    match fam {
        Fam::V3 => {
            let mut st = v3::PollPacketState::default();
            drive_poll_generic(&mut st, r, mode, budget, None, Pkt::V3, Er::V3).0
        }
        Fam::V5 => {
            let mut st = v5::PollPacketState::default();
            drive_poll_generic(&mut st, r, mode, budget, None, Pkt::V5, Er::V5).0
        }
    }
}

/// Poll decoder over an always-ready reader holding `b`; returns the result and bytes consumed.
pub fn dec_poll_bytes(fam: Fam, b: &[u8]) -> (Drive<Result<PollOk, Er>>, usize) {
    let mut r = ScriptedReader::ready(b);
    r.keep_log = false;
    let run = drive_poll(fam, &mut r, PollMode::Keep, b.len() + 16);
    (run.out, r.pos)
}

/// Run to a Pending `clone_at`, clone the state there, finish the original, then resume the
/// clone on a fresh always-ready reader positioned at the same offset. Returns both results.
pub fn drive_poll_clone_resume(
    fam: Fam,
    data: &[u8],
    script: &[crate::io::Step],
    clone_at: usize,
    budget: usize,
) -> (PollRun, Option<Drive<Result<PollOk, Er>>>) {
    match fam {
        Fam::V3 => {
            let mut st = v3::PollPacketState::default();
            let mut r = ScriptedReader::new(data, script);
            let (run, cl) = drive_poll_generic(&mut st, &mut r, PollMode::Recreate, budget, Some(clone_at), Pkt::V3, Er::V3);
            let second = cl.map(|(pos, mut st2)| {
                let mut r2 = ScriptedReader::ready(data);
                r2.pos = pos;
                drive_poll_generic(&mut st2, &mut r2, PollMode::Keep, budget, None, Pkt::V3, Er::V3).0.out
            });
            (run, second)
        }
        Fam::V5 => {
            let mut st = v5::PollPacketState::default();
            let mut r = ScriptedReader::new(data, script);
            let (run, cl) = drive_poll_generic(&mut st, &mut r, PollMode::Recreate, budget, Some(clone_at), Pkt::V5, Er::V5);
            let second = cl.map(|(pos, mut st2)| {
                let mut r2 = ScriptedReader::ready(data);
                r2.pos = pos;
                drive_poll_generic(&mut st2, &mut r2, PollMode::Keep, budget, None, Pkt::V5, Er::V5).0.out
            });
            (run, second)
        }
    }
}

/// Check the transport log of a poll-decoder run against the frame geometry of `data`
/// starting at `start`: header reads ask for exactly one byte, body reads never ask beyond
/// the end of the frame.
pub fn check_asks(log: &[ReadEv], data: &[u8], start: usize) -> Option<String> {
    // header geometry from the reference var-int reader
    let (hdr, remlen) = match crate::refm::varint_dec(data.get(start + 1..).unwrap_or(&[])) {
        crate::refm::VarDec::Ok(v, n, _) => (Some(1 + n), v as usize),
        _ => (None, 0),
    };
    // The property forbids asking for bytes beyond the end of the current frame. The frame end is
    // known (to the monitor) whenever the stream holds a complete length field; when the stream ends
    // inside the fixed header there is no frame to overrun and nothing is judged.
    let end = match hdr {
        Some(h) => h + remlen,
        None => return None,
    };
    for ev in log {
        if ev.pos < start {
            continue;
        }
        let off = ev.pos - start;
        if off + ev.cap > end && ev.cap > 0 {
            let phase = if off < hdr.unwrap() { "header" } else { "body" };
            return Some(format!("{} read at offset {} asked for {} bytes, frame ends at {}", phase, off, ev.cap, end));
        }
        if let ROut::Data(n) = ev.out {
            if n > ev.cap {
                return Some("transport delivered more than asked (harness bug)".into());
            }
        }
    }
    None
}

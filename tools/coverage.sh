#!/bin/sh
# Diagnostic (not a registered check): line coverage of /repo/src under the combined quick workload
# of all twenty monitors (chk-like build with -Cinstrument-coverage on the nightly toolchain).
# Usage: tools/coverage.sh [tier]   -> writes /verif/evidence/coverage.txt
set -e
cd "$(dirname "$0")/../harness"
TIER=${1:-quick}
BIN=$HOME/.rustup/toolchains/nightly-x86_64-unknown-linux-gnu/lib/rustlib/x86_64-unknown-linux-gnu/bin
OUT=/verif/target/cov
mkdir -p $OUT/prof
rm -f $OUT/prof/*.profraw
cp /repo/Cargo.lock Cargo.lock
LLVM_PROFILE_FILE="$OUT/prof/build-%p.profraw" CARGO_NET_OFFLINE=true CARGO_TARGET_DIR=$OUT RUSTFLAGS="-Cinstrument-coverage" cargo +nightly build --offline --profile chk 2>&1 | tail -1
for p in C01 C02 C03 C04 C05 C06 C07 C08 C09 C10 C11 C12 C13 C14 C15 C16 C17 C18 C19 C20; do
  LLVM_PROFILE_FILE="$OUT/prof/$p-%p.profraw" MQV_COVERAGE=1 $OUT/chk/mqv run $p $TIER --layer vg --out $OUT/$p.json --replays $OUT/replays 2>&1 | tail -1
done
$BIN/llvm-profdata merge -sparse $OUT/prof/*.profraw -o $OUT/all.profdata
$BIN/llvm-cov report $OUT/chk/mqv -instr-profile=$OUT/all.profdata --ignore-filename-regex='(harness|\.cargo|rustc|tests)' > /verif/evidence/coverage.txt
$BIN/llvm-cov show $OUT/chk/mqv -instr-profile=$OUT/all.profdata --ignore-filename-regex='(harness|\.cargo|rustc|tests)' --show-line-counts-or-regions > $OUT/show.txt 2>/dev/null || true
cat /verif/evidence/coverage.txt

#!/usr/bin/env python3
"""Confirm a seeded breaking change produced by a sub-agent and file it under /verif/seeded/<name>/.

  tools/confirm_seeded.py <name> <property> <agent-worktree> "<what it needs to manifest>"

In a fresh scratch worktree of /repo (never /repo itself): the demonstration passes on the
unchanged tree; with patch.diff applied the crate compiles, its own 73 tests pass and the
demonstration fails. Only then are patch.diff, the demonstration and meta.json stored.
"""
import json
import os
import re
import shutil
import subprocess
import sys

name, prop, wt, needs = sys.argv[1], sys.argv[2], sys.argv[3], sys.argv[4]
extra_check = sys.argv[5].split(",") if len(sys.argv) > 5 else None
OUT = os.path.join(wt, "OUT")
SCR = "/tmp/mqv-confirm"
DEST = os.path.join("/verif/seeded", name)


def sh(cmd, cwd=None, timeout=1800):
    env = dict(os.environ, CARGO_NET_OFFLINE="true", CARGO_TARGET_DIR="/tmp/mqv-confirm-target")
    p = subprocess.run(cmd, cwd=cwd, env=env, stdout=subprocess.PIPE, stderr=subprocess.STDOUT, text=True, errors="replace", timeout=timeout)
    return p.returncode, p.stdout


def result(out):
    m = re.findall(r"test result: (\w+)\. (\d+) passed; (\d+) failed", out)
    return m


if os.path.isdir(SCR):
    sh(["git", "-C", "/repo", "worktree", "remove", "--force", SCR])
rc, out = sh(["git", "-C", "/repo", "worktree", "add", "--detach", SCR, "HEAD"])
assert rc == 0, out
ran = []
try:
    demo = os.path.join(OUT, "seeded_demo.rs")
    patch = os.path.join(OUT, "patch.diff")
    assert os.path.exists(demo) and os.path.exists(patch), "agent output incomplete"
    os.makedirs(os.path.join(SCR, "tests"), exist_ok=True)
    shutil.copyfile(demo, os.path.join(SCR, "tests", "seeded_demo.rs"))
    # 1. demo passes on the unchanged tree
    REL = ["--release"] if os.environ.get("MQV_CONFIRM_RELEASE") else []
    DEMO = ["cargo", "test", "--offline"] + REL
    if os.environ.get("MQV_CONFIRM_MIRI"):
        # demonstration only observable under the undefined-behaviour interpreter
        DEMO = ["cargo", "+nightly", "miri", "test", "--offline"]
    rc, out = sh(DEMO + ["--test", "seeded_demo"], cwd=SCR)
    r = result(out)
    ok_before = rc == 0 and r and all(x[0] == "ok" for x in r)
    ran.append({"cmd": " ".join(DEMO) + " --test seeded_demo (unchanged tree)", "exit": rc, "result": r})
    # 2. apply the change: compiles, 73 lib tests pass
    rc, out = sh(["git", "apply", patch], cwd=SCR)
    assert rc == 0, "patch does not apply: " + out
    rc, out = sh(["cargo", "test", "--offline", "--lib"], cwd=SCR)
    r = result(out)
    ok_lib = rc == 0 and r and r[0][0] == "ok" and r[0][1] == "73"
    ran.append({"cmd": "cargo test --offline --lib (with the change)", "exit": rc, "result": r})
    # 3. demo fails with the change
    rc, out = sh(DEMO + ["--test", "seeded_demo"], cwd=SCR)
    r = result(out)
    fails_after = rc != 0
    ran.append({"cmd": " ".join(DEMO) + " --test seeded_demo (with the change)", "exit": rc, "result": r, "tail": out[-600:]})
    print("demo passes unchanged:", ok_before, "| lib tests with change:", ok_lib, "| demo fails with change:", fails_after)
    if ok_before and ok_lib and fails_after:
        os.makedirs(DEST, exist_ok=True)
        shutil.copyfile(patch, os.path.join(DEST, "patch.diff"))
        shutil.copyfile(demo, os.path.join(DEST, "seeded_demo.rs"))
        if os.path.exists(os.path.join(OUT, "notes.md")):
            shutil.copyfile(os.path.join(OUT, "notes.md"), os.path.join(DEST, "notes.md"))
        meta = {
            "property": prop,
            "check_with": extra_check or [prop],
            "needs": needs,
            "origin": "independent sub-agent given only the property text and a scratch worktree",
            "confirmed": ran,
        }
        json.dump(meta, open(os.path.join(DEST, "meta.json"), "w"), indent=1)
        print("stored in", DEST)
    else:
        print("NOT stored: confirmation failed")
        for x in ran:
            print(x)
        sys.exit(1)
finally:
    sh(["git", "-C", "/repo", "worktree", "remove", "--force", SCR])

#!/usr/bin/env python3
"""Regenerates /verif/MANIFEST.json (kept valid against /root/.vp/MANIFEST.schema.json)."""
import json, os
ROOT = os.path.dirname(os.path.dirname(os.path.abspath(__file__)))

T = {
 "C01": ("round-trip monitor: generated valid packets encoded and decoded through all three front-ends under random delivery schedules; panic/overflow sanitizer build (chk), plain release build (rel), Miri shards, valgrind memcheck shards (thorough: plus ASan)",
         "Differential round trip over the complete code/flag/option/property-subset enumerations plus random and size-boundary values; every returned packet, reported total and body buffer is compared with what was sent. Exploration: held on the packets generated, not a proof."),
 "C02": ("length-agreement monitor: counting sinks on every public Encodable part, fixed-header re-parse by a reference var-int reader, chk-vs-rel rolling-hash comparison, oversize packets built with shared buffers; valgrind memcheck shards (thorough: plus ASan)",
         "encode_len vs bytes written, remaining-length field vs bytes following, each body/property part vs its own encode_len, in a build with debug assertions + overflow checks and in a plain release build whose outputs must hash identically; packets of >= 2^28 must be refused with InvalidVarByteInt (never a panic)."),
 "C03": ("hostile-input workload under sanitizers: panic/overflow build, allocation meter, transport step counter, Miri and valgrind memcheck shards, deterministic validator-boundary catalogue (quick); plus ASan build and libFuzzer (thorough)",
         "Every decoder entry point is run on exhaustive short strings, header sweeps, random and structure-aware corrupted inputs while the panic monitor, a counting allocator (single request > 2^28+64KiB), a read counter (spinning) and UB interpreters / memory sanitizers watch."),
 "C04": ("reference-model differential: independent MQTT 3.1.1/5.0 decoder classifies each complete frame (must-accept / must-reject / don't-care) and yields spec-level fields compared with the poll decoder's result",
         "Acceptance and field values of the strict poll decoder against an executable reference grammar, over grammar-generated frames, catalogue malformations, structure-aware and byte mutations, and all control bytes with tiny bodies."),
 "C05": ("schedule exploration with scripted AsyncRead: exhaustive chunkings x Pending placements x {future kept, re-created} for short streams, random edge-biased schedules and clone-and-resume for long ones; oracle = uninterrupted run + transport request log + state snapshots; Miri shards (thorough: plus ASan, memcheck, libFuzzer over schedule x stream)",
         "Self-differential against the uninterrupted run; the transport log decides over-asking, invented/swallowed Pending, lost wake-ups and consumed-vs-reported bytes; PollPacketState snapshots decide resume-point consistency."),
 "C06": ("self-differential monitor over the three decoder front-ends on hostile byte strings, exactly as the statement words the agreement",
         "blocking == async with EOF mapped to incomplete (packets and bare headers); poll-accepted => same packet everywhere; poll-rejected with a non-remaining-length error => same error everywhere; the evidence lists the error variants on which agreement was actually observed."),
 "C07": ("cut-point and suffix enumeration: every strict prefix (all positions up to 4 KiB) and five suffix kinds of each valid encoding through the three front-ends",
         "Every cut position of every generated encoding must be reported incomplete (Ok(None) / is_eof()), and the encoding followed by other bytes must decode to the same packet with exactly its own bytes consumed."),
 "C08": ("conservation/order checker over a recorded transport history: packet sequences decoded one at a time from one scripted reader with chunk boundaries straddling packets",
         "Decoded sequence == generated sequence, byte counts add up, reader position after each decode == packet end, no read beyond the current frame, clean end-of-input afterwards; blocking front-end advanced by encode_len and independently by the public header helpers."),
 "C09": ("encoder differential with scripted AsyncWrite / io::Write sinks: partial writes, Pending placements (exhaustive for 2/4-byte packets), repeated calls, body stream vs packet bytes; chk and rel builds, valgrind memcheck shards (thorough: plus Miri, ASan)",
         "All encoder entry points must deliver exactly encode()'s bytes whatever the sink accepts per call; packet bytes == fixed header ++ streamed body."),
 "C10": ("independent-decoder conformance monitor: the crate's encodings parsed by the reference decoder (own number tables); run fails unless every code/property/level table entry was observed on the wire",
         "The reference decoder must accept the encoder's output, with minimal var-ints, and recover exactly the original field values; a constant changed consistently in encoder and decoder is visible because the oracle does not use the crate's tables."),
 "C11": ("accepted-input manufacturing + re-encode/re-decode monitor on all front-ends; chk and rel builds (thorough: ASan)",
         "Every packet any front-end returns for manufactured non-canonical inputs (spellings, lenient framings, don't-care shapes, accepted mutations) is re-encoded, re-decoded on all front-ends and its length compared with the bytes consumed."),
 "C12": ("online invariant walker (exhaustive field patterns) over every packet returned by any front-end for validator-aimed hostile-text frames and manufactured accepted inputs; Miri shards",
         "UTF-8 validity of every text field re-checked with std, the crate's own topic predicates and shared accessors against the reference split, non-zero identifiers, var-int range, payload-format and Maximum-QoS invariants."),
 "C13": ("cross-family CONNECT monitor: error identity, reader position from the transport log, continuation via decode_with_protocol (async reader and poll state buffer); exhaustive level x name table",
         "All CONNECT flag combinations of 3.1/3.1.1/5.0 to the other family's three front-ends; all 256 levels x 15 names through both families and Protocol::new."),
 "C14": ("fault enumeration with fault-injecting scripted reader/writer: every byte position x error kinds / EOF / zero-length write / transient Interrupted; plus error-type conversion table",
         "For every host packet up to 2 KiB every fault position is enumerated for readers (async, poll) and writers (encode_async, streaming encoder); the surfaced error kind, EOF classification and the sink's prefix property are checked."),
 "C15": ("domain enumeration against reference var-int arithmetic (thorough: all 2^28 values incl. the poll header state machine; quick: all < 2^16, boundaries +-4096, 2M random); all continuation patterns of 1-5 bytes",
         "Writer, reader, width and header-length helpers and the second var-int reader inside the poll header machine, compared with a ten-line reference; thorough tier is a complete enumeration (exhaustive: true)."),
 "C16": ("bounded-exhaustive string enumeration against a reference filter validator (<=6 / <=8 symbols over 8 character classes x 14 $share prefix shapes), constructor and SUBSCRIBE/UNSUBSCRIBE packet routes",
         "Every enumerated string is judged by TopicFilter::is_invalid and by the reference rule of MQTT 4.7/4.8; a sample also through try_from (error payload) and through both families' packets."),
 "C17": ("accessor/comparison monitor over the valid filters of the C16 enumeration: unique split, text round trip, ==/cmp/hash under two hashers on all pairs in buckets, decoded-vs-constructed; Miri shards (thorough)",
         "Shared-subscription accessors against the unique textual split and comparison/hash traits against the strings', including filters obtained from decoded packets."),
 "C18": ("bounded-exhaustive string enumeration against the reference topic-name rule, constructor/accessors and six packet routes",
         "Every enumerated string through TopicName::is_invalid/try_from, accessors on accepted names, and a sample through PUBLISH, will and response-topic fields of both families."),
 "C19": ("pair enumeration against modular arithmetic on the cycle 1..=65535 (thorough: all 65535 x 65536 pairs) in the overflow-checked build",
         "Pid +/-, +=/-=, inverse law, non-zero results, construction; thorough tier is a complete enumeration (exhaustive: true)."),
 "C20": ("malformation catalogue monitor: 36 operator rows applied at every applicable position of segmented reference encodings, expected error cross-checked against the reference decoder, three front-ends compared per row",
         "Each single, localised malformation must yield the documented error variant with its payload from the poll decoder, and the blocking/async result prescribed for its row."),
}

NOTE = "trusted base: the harness's reference model and number tables (DESIGN.md section 3), the scripted transports' adherence to the AsyncRead/AsyncWrite/io::Write contracts, rustc's overflow checks / debug assertions, Miri, ASan and valgrind where the layer list of ./check names them; verdict = held on the executions observed"

checks = []
for i in range(1, 21):
    p = "C%02d" % i
    tech, text = T[p]
    checks.append({
        "property_id": p,
        "quick_cmd": "./check %s quick" % p,
        "thorough_cmd": "./check %s thorough" % p,
        "evidence_file": "/verif/evidence/%s.json" % p,
        "replay_cmd_template": "./check replay {path}",
        "engine": "mqv",
        "level_claimed": {
            "category": "fault_enumeration" if p == "C14" else "exploration",
            "text": text,
            "design_ref": "DESIGN.md section 5, %s" % p,
        },
        "level_note": NOTE,
        "technique": "runtime monitoring: " + tech,
    })

m = {
    "version": 1,
    "setup_cmd": "./setup.sh",
    "hooks": {
        "guard": "mqtt_proto_verif",
        "enable": "none needed: every observation point is public API (poll state structs are pub + Clone); instrumentation is applied from outside (rustc -C debug-assertions/-C overflow-checks, Miri, -Zsanitizer=address, valgrind, a counting allocator and scripted transports in the harness crate). The guard name is reserved and unused.",
        "baseline_off_cmd": "cd /repo && cargo test --workspace --no-fail-fast --offline",
        "source_commits": [],
        "add_only": True,
    },
    "engines": [
        {"name": "mqv", "path": "/verif/harness", "serves_properties": ["C%02d" % i for i in range(1, 21)],
         "kind_free_text": "Rust harness crate (path-depends on /repo, rebuilt by every ./check): reference MQTT model, generators, scripted transports, one monitor per property; driven by /verif/check which builds and runs the instrumentation layers (chk, rel, miri, asan, valgrind) and merges their results"},
    ],
    "checks": checks,
    "not_applicable": [],
    "notes": "Technique family: runtime monitoring and sanitizers. ./check exits 0 (held on what was observed), 1 (VIOLATION lines) or 2 (HARNESS-ERROR: build failure / nothing observed; never a verdict). Seven genuine defects found by the monitors were repaired by 'fix:' commits in /repo and are listed as fixed: in KNOWN_FINDINGS.txt; there are no unrepaired findings. VERIF_SEED seeds every random choice.",
}
json.dump(m, open(os.path.join(ROOT, "MANIFEST.json"), "w"), indent=1)
print("wrote MANIFEST.json with", len(checks), "checks")

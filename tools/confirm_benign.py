#!/usr/bin/env python3
"""File a property-preserving change produced by a sub-agent under /verif/benign/<name>/.

  tools/confirm_benign.py <name> <agent-worktree> "<what changes observably>"

In a fresh scratch worktree of /repo (never /repo itself): patch.diff applies, the crate
compiles, its own 73 tests pass and the agent's benign_demo.rs passes with the change.
Whether the twenty properties really still hold is then argued per case in DESIGN.md section 9
(a check that fires on one of these is triaged: over-strict check, or the agent was wrong).
"""
import json
import os
import re
import shutil
import subprocess
import sys

name, wt, what = sys.argv[1], sys.argv[2], sys.argv[3]
OUT = os.path.join(wt, "OUT")
SCR = "/tmp/mqv-confirm"
DEST = os.path.join("/verif/benign", name)


def sh(cmd, cwd=None, timeout=1800):
    env = dict(os.environ, CARGO_NET_OFFLINE="true", CARGO_TARGET_DIR="/tmp/mqv-confirm-target")
    p = subprocess.run(cmd, cwd=cwd, env=env, stdout=subprocess.PIPE, stderr=subprocess.STDOUT, text=True, errors="replace", timeout=timeout)
    return p.returncode, p.stdout


if os.path.isdir(SCR):
    sh(["git", "-C", "/repo", "worktree", "remove", "--force", SCR])
rc, out = sh(["git", "-C", "/repo", "worktree", "add", "--detach", SCR, "HEAD"])
assert rc == 0, out
ran = []
try:
    demo = os.path.join(OUT, "benign_demo.rs")
    patch = os.path.join(OUT, "patch.diff")
    assert os.path.exists(patch), "agent output incomplete"
    rc, out = sh(["git", "apply", patch], cwd=SCR)
    assert rc == 0, "patch does not apply: " + out
    rc, out = sh(["cargo", "test", "--offline", "--lib"], cwd=SCR)
    r = re.findall(r"test result: (\w+)\. (\d+) passed; (\d+) failed", out)
    ok_lib = rc == 0 and r and r[0][0] == "ok" and r[0][1] == "73"
    ran.append({"cmd": "cargo test --offline --lib (with the change)", "exit": rc, "result": r})
    ok_demo = True
    if os.path.exists(demo):
        os.makedirs(os.path.join(SCR, "tests"), exist_ok=True)
        shutil.copyfile(demo, os.path.join(SCR, "tests", "benign_demo.rs"))
        rc, out = sh(["cargo", "test", "--offline", "--test", "benign_demo"], cwd=SCR)
        r = re.findall(r"test result: (\w+)\. (\d+) passed; (\d+) failed", out)
        ok_demo = rc == 0
        ran.append({"cmd": "cargo test --offline --test benign_demo (with the change)", "exit": rc, "result": r, "tail": out[-400:]})
    print("lib tests with change:", ok_lib, "| demo passes with change:", ok_demo)
    if ok_lib and ok_demo:
        os.makedirs(DEST, exist_ok=True)
        shutil.copyfile(patch, os.path.join(DEST, "patch.diff"))
        for f in ("benign_demo.rs", "notes.md"):
            if os.path.exists(os.path.join(OUT, f)):
                shutil.copyfile(os.path.join(OUT, f), os.path.join(DEST, f))
        json.dump({"expect": "silent", "what": what, "origin": "independent sub-agent given the twenty property statements and a scratch worktree, asked for a realistic change that keeps all of them true", "confirmed": ran}, open(os.path.join(DEST, "meta.json"), "w"), indent=1)
        print("stored in", DEST)
    else:
        print("NOT stored")
        for x in ran:
            print(x)
        sys.exit(1)
finally:
    sh(["git", "-C", "/repo", "worktree", "remove", "--force", SCR])

#!/bin/sh
# Build the harness (offline) in the profiles the quick tier needs: chk, rel and the Miri build.
# ASan / valgrind layers (thorough tier) are built on first use by ./check.
set -e
cd "$(dirname "$0")"
export CARGO_NET_OFFLINE=true
exec ./check setup

// Shared by the fuzz targets: run a monitor function on the input for both families; on a
// violation write the replay file (through the same Ctx machinery as ./check) and abort so that
// libFuzzer stores the input as a crash artifact.
use mqv::ev::{self, Ctx};
use mqv::refm::Fam;

pub fn run(prop: &'static str, data: &[u8], f: impl Fn(&mut Ctx, Fam, &[u8])) {
    ev::install_panic_hook();
    if data.is_empty() {
        return;
    }
    let fam = if data[0] & 1 == 0 { Fam::V3 } else { Fam::V5 };
    let body = &data[1..];
    let mut ctx = Ctx::new(prop, 0, true);
    f(&mut ctx, fam, body);
    if !ctx.violations.is_empty() {
        let dir = std::env::var("MQV_REPLAYS").unwrap_or_else(|_| "/verif/replays".to_string());
        for (sig, (v, _)) in &ctx.violations {
            let h = mqv::rng::fnv(sig);
            let path = format!("{}/{}-fuzz-{:012x}.replay", dir, prop, h & 0xffff_ffff_ffff);
            let _ = std::fs::write(&path, ev::case_to_text(prop, "fuzz", v));
            println!("VIOLATION property={} replay={}", prop, path);
            println!("  signature: {}", sig);
            println!("  {}", v.what.replace('\n', " "));
        }
        std::process::abort();
    }
}

#![no_main]
use libfuzzer_sys::fuzz_target;
mod common;

fuzz_target!(|data: &[u8]| {
    common::run("C06", data, |c, fam, b| mqv::mon::bytes::c06_input(c, fam, b, "fuzz"));
});

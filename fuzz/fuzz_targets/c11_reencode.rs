#![no_main]
use libfuzzer_sys::fuzz_target;
mod common;

fuzz_target!(|data: &[u8]| {
    common::run("C11", data, |c, fam, b| {
        mqv::mon::bytes::c11_input(c, fam, b, "fuzz");
    });
});

#![no_main]
use libfuzzer_sys::fuzz_target;
mod common;

fuzz_target!(|data: &[u8]| {
    common::run("C04", data, |c, fam, b| {
        // the differential is defined on complete frames: re-frame the input under its own control byte
        if let Some(frame) = mqv::wl::reframe_bytes(b) {
            mqv::mon::grammar::c04_frame(c, fam, &frame, "fuzz");
        }
        if !b.is_empty() {
            mqv::mon::grammar::c04_frame(c, fam, &mqv::wl::frame_of(b[0], &b[1..]), "fuzz");
        }
    });
});

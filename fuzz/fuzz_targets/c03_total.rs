#![no_main]
use libfuzzer_sys::fuzz_target;
mod common;

fuzz_target!(|data: &[u8]| {
    common::run("C03", data, |c, fam, b| {
        let mut r = mqv::rng::Rng::new(b.len() as u64 ^ 0x5eed);
        mqv::mon::bytes::c03_input(c, &mut r, fam, b, true);
    });
});

#![no_main]
use libfuzzer_sys::fuzz_target;
mod common;

// input: [family/mode byte] [k] [k schedule bytes: 0x80.. = Pending, else Give((b & 0x7f) + 1)] [stream ...]
fuzz_target!(|data: &[u8]| {
    if data.len() < 3 {
        return;
    }
    let mode = if data[0] & 2 == 0 { mqv::fe::PollMode::Keep } else { mqv::fe::PollMode::Recreate };
    let k = (data[1] as usize % 48).min(data.len() - 2);
    let sched: Vec<mqv::io::Step> = data[2..2 + k]
        .iter()
        .map(|b| if b & 0x80 != 0 { mqv::io::Step::Pending } else { mqv::io::Step::Give((b & 0x7f) as usize + 1) })
        .collect();
    let mut stream = vec![data[0]];
    stream.extend_from_slice(&data[2 + k..]);
    common::run("C05", &stream, |c, fam, b| {
        if let Ok(base) = mqv::mon::sched::baseline(fam, b) {
            mqv::mon::sched::c05_run(c, fam, b, &base, &sched, mode);
        }
    });
});
